# C13: observers are pure and objects never share state with inputs or each other.
import copy
import json

from harness import common, gen_tables, rt, sweep

LEVEL = 'proof'
OBSERVERS = ['compose', 'as_json', 'as_markdown', '_asdict', 'ja3', 'hassh', 'hassh_server', 'fingerprints', 'key_tag', 'key_bytes',
             'host_key_asdict', '__str__', '__repr__', 'identifier']
KNOWN_SHARED = {('cryptoparser.httpx.header.HttpHeaderFieldValueSetCookie', 'secure'), ('cryptoparser.httpx.header.HttpHeaderFieldValueSetCookie', 'http_only'),
                ('cryptoparser.httpx.header.HttpHeaderFieldValueSetCookieParams', 'secure'),
                ('cryptoparser.httpx.header.HttpHeaderFieldValueSetCookieParams', 'http_only')}


def observe(obj, name):
    try:
        a = getattr(obj, name)
        v = a() if callable(a) else a
        if isinstance(v, (bytearray, bytes)):
            v = bytes(v)
        return ('ok', repr(v) if not isinstance(v, (bytes, str, int)) else v)
    except Exception as e:  # pylint: disable=broad-except
        return ('exc', type(e).__name__)


def snapshot(obj):
    try:
        return copy.deepcopy(obj)
    except Exception:  # pylint: disable=broad-except
        return None


def edit_nested_item(obj, depth=0):
    """Edit, through its own public interface, one item that sits inside a vector of the object (a key share entry, a certificate,
    a distinguished name: the caller holds a reference to it and may change it); True when an edit was made.  The enclosing
    vector is not told, so whatever it caches about its items is stale afterwards - observers must still not write to it."""
    import attr
    if depth > 5 or obj is None or isinstance(obj, (type, str, bytes, bytearray, int, float)):
        return False
    items = getattr(obj, '_items', None)
    if isinstance(items, list) and items and hasattr(obj, 'get_param'):
        it = items[0]
        if hasattr(it, '_items') and hasattr(it, 'append'):
            try:
                it.append(it[0] if len(it) else 0)
                return True
            except Exception:  # pylint: disable=broad-except
                pass
        if attr.has(type(it)):
            for f in attr.fields(type(it)):
                v = getattr(it, f.name, None)
                if isinstance(v, (bytes, bytearray)) and len(v) > 0:
                    try:
                        object.__setattr__(it, f.name, type(v)(bytes(v) + bytes(v[:1])))
                        return True
                    except Exception:  # pylint: disable=broad-except
                        pass
            if edit_nested_item(it, depth + 1):
                return True
    if attr.has(type(obj)):
        for f in attr.fields(type(obj)):
            if f.name == '_items':
                continue
            try:
                if edit_nested_item(getattr(obj, f.name), depth + 1):
                    return True
            except Exception:  # pylint: disable=broad-except
                pass
    return False


def observer_failures(cls, buf, rng, rounds, edited=False):
    try:
        obj, _ = cls.parse_immutable(buf)
    except Exception:  # pylint: disable=broad-except
        return
    if not edited:
        for obs, detail in observer_failures(cls, buf, rng, rounds, True):
            yield obs, detail + ' (after an item of a nested vector had been edited in place)'
    elif not edit_nested_item(obj):
        return
    snap = snapshot(obj)
    if snap is None or not rt.same(obj, snap):
        return
    names = [n for n in OBSERVERS if hasattr(obj, n)]
    first = {}
    for _ in range(rounds):
        n = rng.choice(names)
        r = observe(obj, n)
        if n in first and first[n] != r and n not in ('__repr__',):
            yield n, 'observer %s returns a different result when called again' % n
            return
        first.setdefault(n, r)
        if not rt.same(obj, snap):
            yield n, 'the object differs from a copy taken beforehand after calling %s (%s)' % (n, r[0])
            return


def observer_object_failures(obj, rng, rounds):
    """the observer stage on an object a caller constructed (not parsed)"""
    snap = snapshot(obj)
    if snap is None or not rt.same(obj, snap):
        return
    names = [n for n in OBSERVERS if hasattr(obj, n)]
    first = {}
    for _ in range(rounds):
        n = rng.choice(names)
        r = observe(obj, n)
        if n in first and first[n] != r and n not in ('__repr__',):
            yield n, 'observer %s returns a different result when called again' % n
            return
        first.setdefault(n, r)
        if not rt.same(obj, snap):
            yield n, 'the object differs from a copy taken beforehand after calling %s (%s)' % (n, r[0])
            return


def constructed_objects():
    """objects built by a caller with values the wire format carries only in part (a time with microseconds in a hello random,
    hellos created with their default arguments): serialising rounds on the wire, never in the object"""
    import datetime
    from cryptodatahub.tls.algorithm import TlsCipherSuite
    from cryptoparser.tls.subprotocol import (TlsHandshakeHelloRandom, TlsHandshakeClientHello, TlsHandshakeServerHello, TlsCipherSuiteVector)
    from cryptoparser.tls.version import TlsProtocolVersion
    from cryptodatahub.tls.version import TlsVersion
    t = datetime.datetime(2018, 8, 10, 1, 2, 3, 456789)
    out = []
    for build in (lambda: TlsHandshakeHelloRandom(t), lambda: TlsHandshakeHelloRandom(t, bytearray(range(28))),
                  lambda: TlsHandshakeClientHello(TlsCipherSuiteVector(list(TlsCipherSuite)[:3]), TlsProtocolVersion(TlsVersion.TLS1_2), TlsHandshakeHelloRandom(t)),
                  lambda: TlsHandshakeClientHello(TlsCipherSuiteVector(list(TlsCipherSuite)[:3])),
                  lambda: TlsHandshakeServerHello(TlsProtocolVersion(TlsVersion.TLS1_2), TlsHandshakeHelloRandom(t), cipher_suite=list(TlsCipherSuite)[0]),
                  lambda: TlsHandshakeServerHello(cipher_suite=list(TlsCipherSuite)[0])):
        try:
            o = build()
        except Exception:  # pylint: disable=broad-except
            continue
        out.append(o)
    return out


def alias_failures(cls, buf):
    ba = bytearray(buf)
    try:
        obj, n = cls.parse_immutable(ba)
    except Exception:  # pylint: disable=broad-except
        return
    snap = snapshot(obj)
    if snap is None or not rt.same(obj, snap):
        return
    for i in range(len(ba)):
        ba[i] = 0x58
    if not rt.same(obj, snap):
        yield 'overwrite', 'overwriting the input buffer after parse_immutable changes the parsed object'
        return
    del ba[:]
    if not rt.same(obj, snap):
        yield 'clear', 'clearing the input buffer after parse_immutable changes the parsed object'
        return
    ba2 = bytearray(buf + b'XY')
    try:
        obj2 = cls.parse_mutable(ba2)
        snap2 = snapshot(obj2)
        for i in range(len(ba2)):
            ba2[i] = 0x59
        ba2 += b'more'
        if snap2 is not None and rt.same(obj2, copy.deepcopy(snap2)) is False:
            yield 'mutable', 'modifying the buffer after parse_mutable changes the parsed object'
        elif snap2 is not None and not rt.same(obj2, snap2):
            yield 'mutable', 'modifying the buffer after parse_mutable changes the parsed object'
    except Exception:  # pylint: disable=broad-except
        pass


def mutate_in_place(value):
    """edit a default value in place; returns True when an edit was made"""
    import collections
    if isinstance(value, bytearray):
        value.append(1)
        return True
    if isinstance(value, (dict, collections.OrderedDict)):
        value['verif'] = 1
        return True
    if isinstance(value, list):
        value.append(1)
        return True
    if isinstance(value, set):
        value.add(1)
        return True
    if hasattr(value, 'append') and hasattr(value, '_items'):
        try:
            value.append(value[0] if len(value) else 1)
            return True
        except Exception:  # pylint: disable=broad-except
            pass
    d = getattr(value, '__dict__', None)
    if d:
        k = sorted(d)[0]
        try:
            object.__setattr__(value, k, ('verif-mutated', d[k]))
            return True
        except Exception:  # pylint: disable=broad-except
            return False
    return False


def instance_with_defaults(cls):
    """an instance in which every defaulted field takes its default; required fields come from a parsed vector"""
    import attr
    required = [f for f in attr.fields(cls) if f.default is attr.NOTHING and f.init]
    if not required:
        return lambda: cls()
    vectors = sweep.library_vectors().get(cls)
    if not vectors:
        return None
    try:
        proto, _ = cls.parse_immutable(vectors[0])
    except Exception:  # pylint: disable=broad-except
        return None
    kwargs = {f.name.lstrip('_'): getattr(proto, f.name) for f in required}
    return lambda: cls(**copy.deepcopy(kwargs))


def default_site_failures():
    import attr
    for cname, fname, kind in gen_tables.default_sites():
        if kind in (4, 5):
            continue
        mod, q = cname.rsplit('.', 1)
        cls = sweep.resolve(mod, q)
        mk = instance_with_defaults(cls)
        if mk is None:
            if kind == 3:
                yield cname, fname, 'one mutable object is the default of every instance (structural: no per-instance factory, converter returns the same object)'
            continue
        try:
            p0, p1 = mk(), mk()
            deterministic = rt.same(getattr(p0, fname), getattr(p1, fname))
            pristine = copy.deepcopy(getattr(p0, fname))
            a = mk()
            if not mutate_in_place(getattr(a, fname)):
                continue
            b = mk()
            if getattr(b, fname) is getattr(a, fname):
                yield cname, fname, 'editing %s.%s of one instance in place changes the default of an instance created afterwards (both hold the same object)' % (q, fname)
            elif deterministic and not rt.same(getattr(b, fname), pristine):
                yield cname, fname, ('editing %s.%s of one instance in place changes the default value of an instance created afterwards '
                                     '(different objects sharing their contents)' % (q, fname))
            elif deterministic and not rt.same(getattr(p0, fname), pristine):
                yield cname, fname, 'editing %s.%s of one instance in place changes the same field of an instance created before' % (q, fname)
        except Exception:  # pylint: disable=broad-except
            if kind == 3:
                yield cname, fname, 'one mutable object is the default of every instance'


def mutable_parameter_defaults():
    """(qualified callable, parameter, type of the default) for every hand-written constructor of the library whose parameter default
    is a mutable container: the one object is shared by every call that relies on the default (attrs fields are covered by
    default_site_failures; this is the plain-Python form of the same defect)."""
    import importlib
    import inspect
    import pkgutil
    import attr
    import cryptoparser
    seen = set()
    for m in pkgutil.walk_packages(cryptoparser.__path__, 'cryptoparser.'):
        try:
            mod = importlib.import_module(m.name)
        except Exception:  # pylint: disable=broad-except
            continue
        funcs = []
        for _, obj in inspect.getmembers(mod):
            if inspect.isclass(obj) and obj.__module__ == mod.__name__ and not attr.has(obj):
                # hand-written constructors only: they store what they are given (the generated __init__ of attrs classes is
                # exercised behaviourally by default_site_failures, and plain functions do not keep their arguments)
                f = obj.__dict__.get('__init__')
                if inspect.isfunction(f):
                    funcs.append((f.__qualname__, f))
        for qn, f in funcs:
            if (mod.__name__, qn) in seen or qn.startswith('<') or '__attrs' in qn:
                continue
            seen.add((mod.__name__, qn))
            try:
                sig = inspect.signature(f)
            except (TypeError, ValueError):
                continue
            for pname, prm in sig.parameters.items():
                d = prm.default
                if d is inspect.Parameter.empty:
                    continue
                if isinstance(d, (list, dict, set, bytearray)) or (hasattr(d, '_items') and hasattr(d, 'append')):
                    yield '%s.%s' % (mod.__name__, qn), pname, type(d).__name__


def vector_copy_failures(cls, buf):
    """A vector built from another vector of its class (what the attrs converters of the message classes do) must not
    share its item list with the source."""
    from cryptoparser.common.base import ArrayBase
    if not (isinstance(cls, type) and issubclass(cls, ArrayBase)):
        return
    try:
        v1, _ = cls.parse_immutable(buf)
        before = copy.deepcopy(v1)
        v2 = cls(v1)
    except Exception:  # pylint: disable=broad-except
        return
    edited = False
    for edit in (lambda v: v.append(v[0]), lambda v: v.__delitem__(0), lambda v: v.insert(0, v[-1]), lambda v: v.__setitem__(0, v[-1])):
        try:
            if len(v2):
                edit(v2)
                edited = True
        except Exception:  # pylint: disable=broad-except
            pass
    if edited and not rt.same(v1, before):
        yield 'editing a %s built from another one changes the source vector' % cls.__name__
    try:
        if edited and bytes(v1.compose()) != bytes(before.compose()):
            yield 'editing a %s built from another one changes what the source vector composes' % cls.__name__
    except Exception:  # pylint: disable=broad-except
        pass


def run(chk):
    rng = chk.rng

    def search(_br):
        for cname, fname, detail in default_site_failures():
            if (cname, fname) not in KNOWN_SHARED:
                return [('%s' % detail, {'class': cname, 'field': fname, 'predicate': 'shared-default'}, '%s.%s/shared-default' % (cname, fname), True)]
        return []

    proved = common.proof_stage(chk, 'Props.C13', [], search)
    evals = 0
    sites = 0
    for cname, fname, detail in default_site_failures():
        chk.violation(detail, {'class': cname, 'field': fname, 'predicate': 'shared-default'}, '%s.%s/shared-default' % (cname, fname), True)
    for fn, pname, tname in mutable_parameter_defaults():
        chk.violation('%s(%s=...) has a mutable %s as its default: every call that relies on the default shares that one object' % (fn, pname, tname),
                      {'callable': fn, 'parameter': pname, 'predicate': 'mutable-parameter-default'}, '%s(%s)/mutable-parameter-default' % (fn, pname), True)
    sites = len(gen_tables.default_sites())
    vectors = sweep.library_vectors()
    seen = set()
    rounds = 10 if chk.tier == 'quick' else 60
    per = 1 if chk.tier == 'quick' else 10
    for cls in sorted(vectors, key=sweep.qualname):
        name = sweep.qualname(cls)
        for v in vectors[cls]:
            for b in [v] + [sweep.mutate(rng, v) for _ in range(per)]:
                evals += 1
                for obs, detail in observer_failures(cls, b, rng, rounds):
                    key = '%s/observer:%s' % (name, obs)
                    if key not in seen:
                        seen.add(key)
                        chk.violation('%s: %s' % (name, detail), {'class': name, 'input': b.hex(), 'predicate': 'observer', 'observer': obs}, key, True)
                for detail in vector_copy_failures(cls, b):
                    key = '%s/vector-copy' % name
                    if key not in seen:
                        seen.add(key)
                        chk.violation('%s: %s' % (name, detail), {'class': name, 'input': b.hex(), 'predicate': 'vector-copy'}, key, True)
                for kind, detail in alias_failures(cls, b):
                    key = '%s/alias:%s' % (name, kind)
                    if key not in seen:
                        seen.add(key)
                        chk.violation('%s: %s' % (name, detail), {'class': name, 'input': b.hex(), 'predicate': 'alias'}, key, True)
    for obj in constructed_objects():
        evals += 1
        name = sweep.qualname(type(obj))
        for obs, detail in observer_object_failures(obj, rng, 4 * rounds):
            key = '%s/observer-constructed:%s' % (name, obs)
            if key not in seen:
                seen.add(key)
                chk.violation('%s (constructed with a time that has microseconds / with default arguments): %s' % (name, detail),
                              {'class': name, 'predicate': 'observer-constructed', 'observer': obs}, key, True)
    # client hellos encoded by the Coq specification with each of the four combinations of the two signalling suites: the
    # observers (compose, ja3, as_json, ...) must leave the hello as it was and keep returning the same results
    from harness import impl, tlsgen
    from cryptoparser.tls.subprotocol import TlsHandshakeClientHello
    hello_lines = [tlsgen.client_hello(rng, impl, scsv=sc)[0] for sc in ([], [0x5600], [0x00ff], [0x5600, 0x00ff]) for _ in range(per + 1)]
    br = common.build_runner()
    if br.ok:
        for l, o in zip(hello_lines, common.run_model(hello_lines)):
            if not o.startswith('OK '):
                continue
            evals += 1
            b = bytes.fromhex(o[3:])
            name = sweep.qualname(TlsHandshakeClientHello)
            for obs, detail in list(observer_failures(TlsHandshakeClientHello, b, rng, 4 * rounds)) + [('vector-copy', d) for d in vector_copy_failures(TlsHandshakeClientHello, b)]:
                key = '%s/observer:%s' % (name, obs)
                if key not in seen:
                    seen.add(key)
                    chk.violation('%s: %s' % (name, detail), {'class': name, 'input': b.hex(), 'cmd': l, 'predicate': 'observer', 'observer': obs}, key, True)
    else:
        chk.violation('model runner does not build: %s' % br.failed_file, {'error': br.error}, None, False)
    # the history the pinned tree failed on: a client hello one suite below the ceiling, both signalling flags set
    try:
        from cryptodatahub.tls.algorithm import TlsCipherSuite
        from cryptoparser.tls.subprotocol import TlsHandshakeClientHello, TlsCipherSuiteVector
        suites = list(TlsCipherSuite)
        hello = TlsHandshakeClientHello(TlsCipherSuiteVector([suites[i % 300] for i in range(32766)]), fallback_scsv=True, empty_renegotiation_info_scsv=True)
        before = list(hello.cipher_suites)
        r1 = observe(hello, 'compose')
        r2 = observe(hello, 'compose')
        evals += 2
        if list(hello.cipher_suites) != before or r1 != r2:
            chk.violation('TlsHandshakeClientHello.compose() at the cipher suite ceiling changes the hello (%d -> %d suites) or its result' % (len(before), len(hello.cipher_suites)),
                          {'predicate': 'client-hello-ceiling'}, 'TlsHandshakeClientHello.compose/ceiling', True)
    except Exception as e:  # pylint: disable=broad-except
        chk.violation('client hello ceiling scenario could not run: %s' % type(e).__name__, {'predicate': 'client-hello-ceiling'}, None, False)
    chk.coverage['evaluations'] = evals + sites
    chk.coverage['distinct_nontrivial'] = evals
    chk.coverage['default_sites'] = {'total': sites, 'by_kind': {str(k): sum(1 for s in gen_tables.default_sites() if s[2] == k) for k in (1, 2, 3, 4, 5)}}
    chk.coverage['rule'] = ('every attrs default site of the library exhaustively (construct, edit the field in place, construct again, compare with a '
                            'copy of the pristine default, by identity and by value); every vector class: a vector built from a vector, edited in place, source compared; for every class reached by the repository tests and every vector (plus mutations): parse '
                            'from a bytearray, overwrite and clear the buffer, compare the object with a deep copy taken before (parse_immutable and '
                            'parse_mutable); random histories of %d observer calls (compose, as_json, as_markdown, _asdict, ja3, hassh, fingerprints, '
                            'key_tag, key_bytes, host_key_asdict, str, repr) with the object compared with a deep copy after every call and results '
                            'compared with the first call; the client-hello compose at the cipher-suite ceiling' % rounds)
    chk.sample({'default_sites': [list(s) for s in gen_tables.default_sites()[:6]]})
    chk.assumptions += ['object identity and aliasing are CPython runtime facts: the Coq theorems are about an explicit-store model; this run is what ties '
                        'them to the implementation (partial by nature, see DESIGN.md)']


def replay(path):
    import random
    with open(path) as f:
        r = json.load(f)
    pred = r.get('predicate')
    if pred == 'shared-default':
        hits = [x for x in default_site_failures() if x[0] == r['class'] and x[1] == r['field']]
        print(hits or 'default is per-instance')
        ok = not hits
    elif pred == 'mutable-parameter-default':
        hits = [x for x in mutable_parameter_defaults() if x[0] == r['callable'] and x[1] == r['parameter']]
        print(hits or 'the default is immutable')
        ok = not hits
    elif pred in ('observer', 'alias', 'vector-copy'):
        mod, q = r['class'].rsplit('.', 1)
        cls = sweep.resolve(mod, q)
        b = bytes.fromhex(r['input'])
        if pred == 'observer':
            fails = list(observer_failures(cls, b, random.Random(0), 80))
        elif pred == 'alias':
            fails = list(alias_failures(cls, b))
        else:
            fails = list(vector_copy_failures(cls, b))
        print(fails or 'no failure')
        ok = not fails
    elif pred == 'observer-constructed':
        fails = []
        for obj in constructed_objects():
            if sweep.qualname(type(obj)) == r['class']:
                fails += list(observer_object_failures(obj, random.Random(0), 80))
        print(fails or 'no failure')
        ok = not fails
    else:
        print(json.dumps(r, indent=1)[:3000])
        ok = False
    print('replay: property %s' % ('holds on this input' if ok else 'FAILS on this input'))
    return 0 if ok else 1
