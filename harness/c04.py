# C04: incremental reads guided by the missing-byte count reassemble the stream.
import json

from harness import common, framegen, rt, sweep
from harness.c03 import FRAMING_UNITS

LEVEL = 'proof'


def prefix_failures(cls, name, frame):
    """Every proper prefix of a valid frame must be rejected with NotEnoughData k, 1 <= k <= bytes really missing."""
    from cryptoparser.common.exception import NotEnoughData
    for k in range(len(frame)):
        try:
            cls.parse_immutable(frame[:k])
            yield k, 'prefix-accepted', 'the first %d of %d bytes are accepted as a complete record' % (k, len(frame))
        except NotEnoughData as e:
            if not 1 <= e.bytes_needed <= len(frame) - k:
                yield k, 'missing-count', 'prefix of %d/%d bytes: bytes_needed=%d, really missing %d' % (k, len(frame), e.bytes_needed, len(frame) - k)
        except Exception as e:  # pylint: disable=broad-except
            yield k, 'prefix-rejected-with-' + type(e).__name__, 'prefix of %d/%d bytes is rejected with %s instead of NotEnoughData' % (k, len(frame), type(e).__name__)


def virtual_frames(name, rng):
    """(header bytes, total frame length) for headers that declare large frames - lengths the repository's vectors never
    reach (around 2^14 and 2^15 for SSL 2.0, the TLS record ceiling, 2^16 and 2^24 for MySQL).  Units that check the
    declared length against the buffer before looking at the content reject every proper prefix with NotEnoughData, whatever
    the bytes after the header are."""
    short = name.rsplit('.', 1)[1]
    out = []
    if short == 'SslRecord':
        for ln in (255, 256, 16383, 16384, 16385, 16684, 32767, rng.randint(257, 32766)):
            out.append((bytes([0x80 | (ln >> 8), ln & 0xff]), 2 + ln))
        for ln in (300, 16383, rng.randint(4, 16382)):
            out.append((bytes([ln >> 8, ln & 0xff, rng.randint(0, 3)]), 3 + ln))
    elif short == 'TlsRecord':
        for ln in (255, 256, 16384, 16385, 18432, rng.randint(257, 16383)):
            out.append((bytes([22, 3, 3, ln >> 8, ln & 0xff]), 5 + ln))
    elif short == 'MySQLRecord':
        for ln in (255, 256, 65535, 65536, 70000, rng.randint(257, 200000)):
            out.append((ln.to_bytes(3, 'little') + bytes([rng.randrange(256)]), 4 + ln))
    return out


def virtual_prefix_failures(cls, name, rng, samples):
    from cryptoparser.common.exception import NotEnoughData
    for hdr, total in virtual_frames(name, rng):
        ks = sorted(set([len(hdr), len(hdr) + 1, total - 1, total - 2] + [rng.randint(len(hdr), total - 1) for _ in range(samples)]))
        filler = bytes(rng.getrandbits(8) for _ in range(64)) * (total // 64 + 1)
        for k in ks:
            buf = hdr + filler[:k - len(hdr)]
            try:
                cls.parse_immutable(buf)
                yield buf, total, 'prefix-accepted', 'the first %d bytes of a frame declared as %d bytes are accepted as a complete record' % (k, total)
            except NotEnoughData as e:
                if not 1 <= e.bytes_needed <= total - k:
                    yield buf, total, 'missing-count', 'header declares %d bytes, %d present: bytes_needed=%d, really missing %d' % (total, k, e.bytes_needed, total - k)
            except Exception as e:  # pylint: disable=broad-except
                yield buf, total, 'prefix-rejected-with-' + type(e).__name__, 'header declares %d bytes, %d present: rejected with %s instead of NotEnoughData' % (total, k, type(e).__name__)


def reader_failures(impl, cls, frames, chunks):
    status, out, buf, need, needs = impl.reader_loop(cls.parse_mutable, chunks)
    if status != 'RUN':
        return 'reader stopped: %s after %d of %d records' % (status, len(out), len(frames))
    if buf or len(out) != len(frames):
        return 'reader emitted %d of %d records, %d bytes left over' % (len(out), len(frames), len(buf))
    for o, f in zip(out, frames):
        try:
            if bytes(o.compose()) != f and not rt.same(cls.parse_exact_size(f), o):
                return 'reader emitted a different record'
        except Exception:  # pylint: disable=broad-except
            pass
    return None


EXTRA_FRAMES = {'cryptoparser.ssh.subprotocol.SshProtocolMessage': [
    b'SSH-2.0-dropbear_\r\n', b'SSH-2.0-OpenSSH_\r\n', b'SSH-1.99-IPSSH-\r\n', b'SSH-2.0-OpenSSH__8.1\r\n', b'SSH-2.0-OpenSSH_for_Windows_8.1\r\n',
    b'SSH-2.0-dropbear_2019.78_custom a comment\r\n']}


def unit_frames(rng):
    """valid frames of every framing-unit class reached by the repository tests: {class: [bytes]}"""
    res = {}
    for cls, vs in sweep.library_vectors().items():
        name = sweep.qualname(cls)
        if name in FRAMING_UNITS:
            good = []
            from harness import c03
            for v in list(vs) + [r for v0 in vs for r in c03.reframed(name, v0, rng)]:    # and the other wire forms of the same frames
                try:
                    o, n = cls.parse_immutable(v)
                    if n == len(v) or c03.declared_length(name, v) == len(v):
                        good.append(v)
                except Exception:  # pylint: disable=broad-except
                    pass
            # records the specification calls valid whatever the tree under test says: identification strings whose software
            # version is a vendor name and its separator with nothing after it, or with the separator twice
            good += EXTRA_FRAMES.get(name, [])
            if good:
                res[cls] = good
    return res


def impl_sweep(chk, impl, rng, n_chunkings):
    evals = 0
    for cls, frames in sorted(unit_frames(rng).items(), key=lambda kv: sweep.qualname(kv[0])):
        name = sweep.qualname(cls)
        for f in frames:
            for k, pred, detail in prefix_failures(cls, name, f):
                evals += 1
                yield name, pred, {'class': name, 'frame': f.hex(), 'prefix': k, 'predicate': pred}, detail
            evals += len(f)
        for buf, total, pred, detail in virtual_prefix_failures(cls, name, rng, 6):
            yield name, pred, {'class': name, 'frame': buf.hex(), 'declared': total, 'prefix': len(buf), 'predicate': 'virtual-prefix'}, detail
        evals += 10 * len(virtual_frames(name, rng))
        for _ in range(n_chunkings):
            seq = [rng.choice(frames) for _ in range(rng.randint(1, 4))]
            stream = b''.join(seq)
            for ch in framegen.chunkings(rng, stream, 2):
                evals += 1
                msg = reader_failures(impl, cls, seq, ch)
                if msg:
                    yield name, 'reader:' + msg.split(' after ')[0], {'class': name, 'frames': [x.hex() for x in seq], 'chunks': [c.hex() for c in ch], 'predicate': 'reader'}, msg
    chk.coverage['class_sweep'] = {'framing_unit_classes': len(unit_frames(rng)), 'evaluations': evals}


def run(chk):
    from harness import impl

    rng = chk.rng
    n_frames = 40 if chk.tier == 'quick' else 700
    lines = []
    for u in framegen.UNITS:
        for _ in range(n_frames):
            hd, pl = framegen.valid_frame(rng, u)
            o = impl.impl_line('cframe %s %s %s' % (u, hd, pl.hex()))
            if not o.startswith('OK '):
                continue
            b = bytes.fromhex(o[3:])
            for k in range(len(b) if len(b) <= 80 else 0):
                lines.append('pframe %s %s' % (u, b[:k].hex()))
            for k in sorted(set([0, 1, 2, 3, 4, 5, len(b) - 1, len(b) // 2])) if len(b) > 80 else []:
                lines.append('pframe %s %s' % (u, b[:max(0, k)].hex()))
            seq = [b]
            for _ in range(rng.randint(0, 3)):
                hd2, pl2 = framegen.valid_frame(rng, u)
                o2 = impl.impl_line('cframe %s %s %s' % (u, hd2, pl2.hex()))
                if o2.startswith('OK '):
                    seq.append(bytes.fromhex(o2[3:]))
            stream = b''.join(seq)
            for ch in framegen.chunkings(rng, stream, 3):
                lines.append('reader %s %s' % (u, ','.join(c.hex() for c in ch)))
        # streams that are not valid: the reader must fail or wait exactly as the model says
        for _ in range(n_frames // 4):
            junk = framegen.rnd_bytes(rng, rng.randint(1, 20))
            lines.append('reader %s %s' % (u, ','.join(c.hex() for c in framegen.chunkings(rng, junk, 1)[-1])))

    # the two record layers of C04_ssl2_reader / C04_ssh_reader: streams of SSL 2.0 ERROR records (2- and 3-byte headers, padding)
    # and of SSH packets carrying UNIMPLEMENTED messages (any padding length), cut into chunks
    for _ in range(n_frames):
        recs = []
        for _ in range(rng.randint(1, 4)):
            body = b'\x00' + rng.choice([1, 2, 4, 6]).to_bytes(2, 'big')
            pad = rng.choice([0, 1, 5])
            recs.append(bytes([0x80, len(body)]) + body if rng.random() < 0.5 else
                        bytes([((len(body) + pad) >> 8) & 0x3f, (len(body) + pad) & 0xff, pad]) + body + framegen.rnd_bytes(rng, pad))
        for ch in framegen.chunkings(rng, b''.join(recs), 2):
            lines.append('reader ssl2 %s' % ','.join(c.hex() for c in ch))
        pkts = []
        for _ in range(rng.randint(1, 4)):
            payload = b'\x03' + framegen.rnd_bytes(rng, 4)
            pad = rng.choice([4, 6, 7, 14, 255])
            pkts.append((len(payload) + pad + 1).to_bytes(4, 'big') + bytes([pad]) + payload + framegen.rnd_bytes(rng, pad))
        for ch in framegen.chunkings(rng, b''.join(pkts), 2):
            lines.append('reader sshpkt %s' % ','.join(c.hex() for c in ch))

    def search(_br):
        for name, pred, replay, detail in impl_sweep(chk, impl, rng, 3):
            key = '%s/%s' % (name, pred)
            if chk.known(key) is None:
                return [('%s: %s' % (name, detail), replay, key, True)]
        return []

    proved = common.proof_stage(chk, 'Props.C04', [], search)
    br = common.build_runner()
    impl_out = [impl.impl_line(l) for l in lines]
    if br.ok:
        model_out = common.run_model(lines)
        diffs = [(l, m, i) for l, m, i in zip(lines, model_out, impl_out) if m != i]
        chk.coverage['disagreements'] = len(diffs)
        for l, m, i in diffs[:3]:
            chk.violation('correspondence Frame/Units.v + Reader/Reader.v vs the implementation broke on "%s": model %s, implementation %s' % (
                l[:160], m[:140], i[:140]), {'cmd': l, 'model': m, 'impl': i, 'correspondence': 'Run.run_line reader/pframe'}, None, False)
    else:
        chk.violation('model runner does not build: %s' % br.failed_file, {'error': br.error}, None, False)
    seen = set()
    for name, pred, replay, detail in impl_sweep(chk, impl, rng, 6 if chk.tier == 'quick' else 200):
        key = '%s/%s' % (name, pred)
        if key in seen:
            continue
        seen.add(key)
        chk.violation('%s: %s' % (name, detail), replay, key, True)
    chk.coverage['evaluations'] = len(lines) + chk.coverage.get('class_sweep', {}).get('evaluations', 0)
    chk.coverage['distinct_nontrivial'] = len(set(l for l, o in zip(lines, impl_out) if l.startswith('reader') and ' RUN ' in o and 'out=[]' not in o))
    chk.coverage['traces_validated_against_impl'] = len(lines)
    chk.coverage['rule'] = ('per framing unit (the LV units; SSL 2.0 records and SSH packets in the reader runs): every proper prefix (all cut positions) of composed frames, and reader loops over streams of '
                            '1-4 frames cut into 1-byte, few-chunk and many-chunk deliveries, the wait target after every chunk compared '
                            'between the extracted Coq reader and a Python reader loop driving parse_mutable; junk streams as well; plus an '
                            'implementation-only sweep (all prefixes, random chunkings) over every framing-unit class reached by the '
                            'repository tests; non-trivial = distinct reader runs that emitted at least one record')
    for i in range(0, len(lines), max(1, len(lines) // 10)):
        chk.sample({'cmd': lines[i][:140], 'outcome': impl_out[i][:140]})
    chk.assumptions += ['the reader is modelled at chunk granularity: it retries once the bytes it waited for have arrived']


def replay(path):
    from harness import impl
    with open(path) as f:
        r = json.load(f)
    if 'class' in r:
        mod, q = r['class'].rsplit('.', 1)
        cls = sweep.resolve(mod, q)
        if r.get('predicate') == 'virtual-prefix':
            from cryptoparser.common.exception import NotEnoughData
            buf, total = bytes.fromhex(r['frame']), r['declared']
            try:
                cls.parse_immutable(buf)
                msg = 'accepted'
            except NotEnoughData as e:
                msg = None if 1 <= e.bytes_needed <= total - len(buf) else 'bytes_needed=%d, really missing %d' % (e.bytes_needed, total - len(buf))
            except Exception as e:  # pylint: disable=broad-except
                msg = 'rejected with %s' % type(e).__name__
            print('header declares %d bytes, %d present: %s' % (total, len(buf), msg or 'NotEnoughData within the bound'))
            ok = msg is None
        elif r.get('predicate', '').startswith('reader'):
            msg = reader_failures(impl, cls, [bytes.fromhex(x) for x in r['frames']], [bytes.fromhex(x) for x in r['chunks']])
            print(msg or 'reader reassembles the stream')
            ok = msg is None
        else:
            fails = [x for x in prefix_failures(cls, r['class'], bytes.fromhex(r['frame'])) if x[0] == r['prefix']]
            for _, p, d in fails:
                print('%s: %s' % (p, d))
            ok = not fails
    elif 'cmd' in r:
        print('%s -> %s (model said %s)' % (r['cmd'], impl.impl_line(r['cmd']), r.get('model')))
        ok = impl.impl_line(r['cmd']) == r.get('model')
    else:
        print(json.dumps(r, indent=1)[:3000])
        ok = False
    print('replay: property %s' % ('holds on this input' if ok else 'FAILS on this input'))
    return 0 if ok else 1
