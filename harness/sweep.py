# Implementation-only support for the searches: vectors harvested from the repository's own test suite, discovery of
# all parsable classes, byte-level mutation. Nothing here is a proof; it feeds the correspondence streams and the
# failing-input search, and lets the checks look at classes that have no Coq model yet (reported as exploration).
import functools
import importlib
import json
import os
import subprocess

from harness import common


@functools.lru_cache(maxsize=None)
def harvested():
    """[(module, qualname, bytes, accepted)] recorded while running REPO's tests (cached per process)."""
    out = os.path.join(common.workdir('harvest'), 'vectors.json')
    env = common.impl_env({'VERIF_HARVEST_OUT': out, 'PYTHONPATH': common.REPO + os.pathsep + common.VERIF})
    subprocess.run([common.PY, '-m', 'pytest', '-q', '-p', 'no:cacheprovider', '-p', 'harness.harvest_plugin',
                    '--timeout=600', os.path.join(common.REPO, 'test')], cwd=common.REPO, env=env,
                   stdout=subprocess.DEVNULL, stderr=subprocess.DEVNULL)
    res = []
    try:
        with open(out) as f:
            for m, q, h, ok in json.load(f):
                res.append((m, q, bytes.fromhex(h), ok))
    except (IOError, ValueError):
        pass
    common.cleanup(os.path.dirname(out))
    return res


def resolve(module, qualname):
    try:
        obj = importlib.import_module(module)
        for part in qualname.split('.'):
            obj = getattr(obj, part)
        return obj
    except Exception:  # pylint: disable=broad-except
        return None


@functools.lru_cache(maxsize=None)
def library_vectors():
    """{class: [accepted byte strings]} for classes defined in cryptoparser itself (test helper classes excluded)."""
    res = {}
    for m, q, b, ok in harvested():
        if not ok or not m.startswith('cryptoparser.'):
            continue
        cls = resolve(m, q)
        if cls is None:
            continue
        res.setdefault(cls, [])
        if b not in res[cls]:
            res[cls].append(b)
    return res


def mutate(rng, b):
    b = bytearray(b)
    k = rng.choice(['flip', 'flip', 'byte', 'len', 'trunc', 'trunc', 'extend', 'splice', 'dup', 'zero', 'ff'])
    if not b:
        return bytes(rng.getrandbits(8) for _ in range(rng.randint(0, 4)))
    i = rng.randrange(len(b))
    if k == 'flip':
        b[i] ^= 1 << rng.randrange(8)
    elif k == 'byte':
        b[i] = rng.getrandbits(8)
    elif k == 'len':
        b[i] = rng.choice([0, 1, 2, 3, 4, 0x7f, 0x80, 0xfe, 0xff, (b[i] + 1) % 256, (b[i] - 1) % 256])
    elif k == 'trunc':
        b = b[:i]
    elif k == 'extend':
        b += bytes(rng.getrandbits(8) for _ in range(rng.randint(1, 4)))
    elif k == 'splice':
        b = b[:i] + bytes(rng.getrandbits(8) for _ in range(rng.randint(1, 3))) + b[i:]
    elif k == 'dup':
        j = rng.randrange(i, len(b))
        b = b[:j] + b[i:j] + b[j:]
    elif k == 'zero':
        b[i] = 0
    else:
        b[i] = 0xff
    return bytes(b)


_JSON_KEYS = None


def json_keys():
    """member names seen in any JSON object among the repository vectors (optional members of one vector are present in another)"""
    global _JSON_KEYS  # pylint: disable=global-statement
    if _JSON_KEYS is None:
        import json
        import re
        keys = set()
        for vs in library_vectors().values():
            for v in vs:
                m = re.search(rb'\{.*\}', v, re.S)
                if m is None:
                    continue
                try:
                    doc = json.loads(m.group(0).decode('ascii'))
                except (ValueError, UnicodeDecodeError):
                    continue
                if isinstance(doc, dict):
                    keys.update(k for k in doc if isinstance(k, str))
        _JSON_KEYS = sorted(keys)
    return _JSON_KEYS


def directed(rng, v, siblings=(), budget=24, sentinels=24):
    """Structured malformations that byte-level mutation rarely reaches: a field emptied (an alphanumeric run removed, a
    32-bit word or a single byte zeroed), a small code walked through 0..15 at a position, a digit run inflated beyond the
    interpreter's integer conversion limit, an absurdly large number in a date / number position, a count field zeroed, and
    the accepted input of a sibling class (request vs response, one message type vs another)."""
    import re
    out = []
    text = all(32 <= c < 127 or c in (9, 10, 13) for c in v) and len(v) > 0
    if text:
        runs = [m.span() for m in re.finditer(rb'[A-Za-z0-9_.-]+', v)]
        for a, b in rng.sample(runs, min(len(runs), 6)):
            out.append(v[:a] + v[b:])
        digits = [m.span() for m in re.finditer(rb'[0-9]+', v)]
        for a, b in rng.sample(digits, min(len(digits), 3)):
            out.append(v[:a] + b'7' * 5000 + v[b:])
            out.append(v[:a] + b'99999999999999999999' + v[b:])
        out.append(b'99999999999999999999')
        # JSON values: every member replaced by values of other types and by the numbers a converter may choke on
        jm = re.search(rb'\{.*\}', v, re.S)      # a JSON object: the whole value, or the value of a header line in a block
        if jm is not None:
            try:
                import json
                doc = json.loads(jm.group(0).decode('ascii'))
            except ValueError:
                doc = None
            if isinstance(doc, dict):
                for k in list(doc)[:6]:
                    for alt in ('NaN', 'Infinity', '-Infinity', '1e999', '-1', '"x"', '[]', '{}', 'null', 'true', '1.5', '99999999999999999999',
                                '9' * 400, '[' * 100000 + ']' * 100000):
                        new_doc = ('{%s}' % ', '.join('%s: %s' % (json.dumps(n), alt if n == k else json.dumps(x)) for n, x in doc.items())).encode('ascii')
                        out.append(v[:jm.start()] + new_doc + v[jm.end():])
                # optional members the object does not carry, with the numbers a converter or a composer may choke on
                for k in json_keys():
                    if k not in doc:
                        for alt in ('Infinity', '-1e999', 'NaN', '"x"'):
                            new_doc = ('{%s}' % ', '.join(['%s: %s' % (json.dumps(n), json.dumps(x)) for n, x in doc.items()] + ['%s: %s' % (json.dumps(k), alt)])).encode('ascii')
                            out.append(v[:jm.start()] + new_doc + v[jm.end():])
        # dates at the ends of the calendar with a zone offset that carries them beyond it, and beyond the calendar
        for m in list(re.finditer(rb'[A-Z][a-z]{2}, \d{2} [A-Z][a-z]{2} \d{4} \d{2}:\d{2}:\d{2} GMT', v))[:2]:
            a, b = m.span()
            for d in (b'Mon, 01 Jan 0001 00:00:00 +0001', b'0001-01-01 09:59:59 +10:00', b'Fri, 31 Dec 9999 23:59:59 -0100', b'9999-12-31 23:59:59 -00:01',
                      b'Sat, 01 Jan 10000 00:00:00 GMT', b'Mon, 00 Jan 0000 00:00:00 GMT', b'Thu, 01 Jan 1970 00:00:00 +9999'):
                out.append(v[:a] + d + v[b:])
        out.append(v.replace(b'\r\n', b'\n'))
        out.append(v.rstrip(b'\r\n') if v.rstrip(b'\r\n') != v else v + b'\n')
    else:
        pos = list(range(min(len(v), 48)))
        for i in rng.sample(pos, min(len(pos), 8)):
            out.append(v[:i] + b'\x00' + v[i + 1:])
            out.append(v[:i] + bytes([rng.randrange(16)]) + v[i + 1:])
        for i in rng.sample(range(0, max(1, len(v) - 3)), min(6, max(1, len(v) - 3))):
            out.append(v[:i] + b'\x00\x00\x00\x00' + v[i + 4:])
            out.append(v[:i] + b'\xff\xff\xff\xff' + v[i + 4:])
        # a whole field blanked: coordinates, moduli, nonces (zero, one, all ones), of the usual field sizes, at any
        # offset and in particular as the last bytes of the buffer
        for ln in (8, 16, 20, 28, 32, 48, 64, 66, 128):
            if len(v) > ln:
                for i in {len(v) - ln, len(v) - 2 * ln if len(v) > 2 * ln else 0, rng.randrange(len(v) - ln)}:
                    fill = rng.choice([bytes(ln), bytes(ln - 1) + b'\x01', b'\xff' * ln])
                    out.append(v[:i] + fill + v[i + ln:])
            # the last two fields of that size together (both coordinates of a point, p and q): tiny values and exact
            # powers of 256
            if len(v) >= 2 * ln:
                fill = rng.choice([bytes(ln - 1) + b'\x01', bytes(ln - 2) + b'\x01\x00', bytes(ln - 3) + b'\x01\x00\x00'])
                out.append(v[:len(v) - 2 * ln] + fill + fill)
    # host names: a label turned into a malformed / truncated / empty ACE (punycode) label
    for m in list(re.finditer(rb'[a-z0-9-]{3,}', v))[:3]:
        a, b = m.span()
        for lab in (b'xn--', b'xn--a-', b'xn--' + v[a:b][:-1] + b'-', b'xn--99999999a', b'xn--bcher-kv', v[a:a + 1] + b'..' + v[a + 3:b], b'.' + v[a + 1:b]):
            lab = lab[:b - a].ljust(b - a, b'a') if not text else lab
            out.append(v[:a] + lab + v[b:])
    for s in list(siblings)[:4]:
        out.append(s)
    rng.shuffle(out)
    out = out[:budget]
    if not text:
        # the all-ones sentinel of a 16-, 24-, 32- or 64-bit field (timestamps, lengths, packet sizes) at the offsets of the first bytes; these do not
        # compete with the other malformations for the budget
        spots = [(ln, i) for ln in (8, 4, 3, 2) for i in range(0, max(0, min(len(v), 128 if ln > 3 else 32) - ln + 1))]
        for ln, i in (spots if sentinels is None else rng.sample(spots, min(len(spots), sentinels))):
            out.append(v[:i] + b'\xff' * ln + v[i + ln:])
    return out


def inflate_counts(rng, v, limit):
    """Every place that looks like a count or length field (a small 4-, 3-, 2- or 1-byte big- or little-endian number) set
    to the largest value of its width, with the data after it kept, cut short or removed: a declared count or length may
    cost a length check, never work proportional to its value."""
    first, rest = [], []
    n = len(v)
    for w in (4, 3, 2, 1):
        for i in range(0, n - w + 1):
            val = int.from_bytes(v[i:i + w], 'big')
            val_le = int.from_bytes(v[i:i + w], 'little')
            if (w > 1 and (val < 4096 or val_le < 4096)) or (w == 1 and 0 < val < 64):
                big = b'\xff' * w
                # 32-bit numbers up to 16 are the typical item counts: always probed, the others sampled
                bucket = first if (w == 4 and min(val, val_le) <= 16) else rest
                bucket.append(v[:i] + big + v[i + w:])
                bucket.append(v[:i] + big)
                bucket.append(v[:i] + big + v[i + w:i + w + 8])
                if w == 1:
                    # escape forms of a one-octet length: 00 followed by a 16-bit length (RFC 3110 exponent length), the BER
                    # long form 82 followed by a 16-bit length
                    for esc in (b'\x00\xff\xff', b'\x82\xff\xff'):
                        bucket.append(v[:i] + esc + v[i + 1:])
                        bucket.append(v[:i] + esc + v[i + 1:i + 2])
    if len(first) > 8 * limit:
        first = rng.sample(first, 8 * limit)
    if len(rest) > limit:
        rest = rng.sample(rest, limit)
    return first + rest


def qualname(cls):
    return cls.__module__ + '.' + cls.__qualname__


def self_nested(v, depth, limit=4):
    """A vector nested into itself: every place of a binary vector that holds a length-prefixed blob (a 32-bit length L followed
    by L octets, L >= 16) gets the whole vector in place of the blob, `depth` times over.  A parser that accepts the structure of
    its own class inside such a field (a certificate whose signing key may be a certificate) is driven to a nesting depth the
    sender chooses.  Yields (offset, bytes)."""
    n = len(v)
    found = 0
    for i in range(0, n - 20):
        ln = int.from_bytes(v[i:i + 4], 'big')
        if 16 <= ln <= n - i - 4:
            b = v
            for _ in range(depth):
                b = v[:i] + len(b).to_bytes(4, 'big') + b + v[i + 4 + ln:]
            yield i, b
            found += 1
            if found >= limit:
                return


SCT_LIST_OID = bytes.fromhex('060a2b06010401d679020402')


def der_directed(v, budget=16):
    """Malformations of the DER structures inside a vector (an X.509 certificate in an SSH host key) that single random
    byte changes reach once in hundreds: an object identifier with one arc changed (an algorithm, attribute or extension that
    is not known), a large INTEGER with its sign octet turned into 0x80 (a modulus that is not positive) or zeroed out, and
    the length fields of a signed certificate timestamp list.  Deterministic; spread over the whole vector up to the budget."""
    if b'\x30\x82' not in v:
        return []
    out = []
    oids, ints = [], []
    for i in range(len(v) - 4):
        if v[i] == 0x06 and 3 <= v[i + 1] <= 12 and i + 2 + v[i + 1] <= len(v) and v[i + 2] in (0x2a, 0x2b, 0x55, 0x60, 0x67):
            oids.append(i)
        if v[i] == 0x02 and v[i + 1] == 0x82 and v[i + 4] == 0 and (v[i + 2] << 8 | v[i + 3]) >= 64:
            ints.append(i)
    for i in ints[:2]:
        out.append(v[:i + 4] + b'\x80' + v[i + 5:])
        n = v[i + 2] << 8 | v[i + 3]
        out.append(v[:i + 4] + bytes(n) + v[i + 4 + n:])
        out.append(v[:i + 4] + bytes(n - 1) + b'\x01' + v[i + 4 + n:])
    j = v.find(SCT_LIST_OID)
    if j >= 0:
        k = j + len(SCT_LIST_OID)
        for _ in range(2):                      # the two OCTET STRING headers around the list
            if k < len(v) and v[k] == 0x04:
                k += 2 + (v[k + 1] & 0x7f if v[k + 1] & 0x80 else 0)
        for d in range(4):
            if k + d < len(v):
                out.append(v[:k + d] + bytes([v[k + d] ^ 1]) + v[k + d + 1:])
                out.append(v[:k + d] + b'\xff' + v[k + d + 1:])
    # identifiers: the last ones first (the signature algorithm closes a certificate), then the rest evenly
    step = max(1, len(oids) // max(1, budget - len(out)))
    for i in (oids[-2:] + oids[:-2][::step]):
        last = i + 1 + v[i + 1]
        out.append(v[:last] + bytes([(v[last] + 1) & 0x7f]) + v[last + 1:])
        mid = i + 2 + v[i + 1] // 2
        out.append(v[:mid] + bytes([v[mid] ^ 2]) + v[mid + 1:])
    return out[:max(budget, 14)]
