# Shared machinery of the /verif checks: paths, Coq build, model evaluation, evidence, replays, known findings.
import fcntl
import hashlib
import json
import os
import random
import re
import shutil
import subprocess
import sys
import time

VERIF = os.path.dirname(os.path.dirname(os.path.abspath(__file__)))
REPO = os.environ.get('VERIF_REPO', '/repo')
COQ = os.path.join(VERIF, 'coq')
GEN = os.path.join(COQ, 'gen')
WORK = os.path.join(VERIF, '.work')
PY = '/venv/bin/python'
NPROC = 16

COQ_FLAGS = ['-Q', os.path.join(COQ, 'theories'), 'CP', '-Q', GEN, 'CPGen', '-w', '-notation-overridden']

ALLOWED_AXIOMS = set()  # stdlib axioms that a theorem may depend on; each must be named in DESIGN.md section 7


def impl_env(extra=None):
    env = dict(os.environ)
    env.update({
        'PYTHONPATH': REPO,
        'PYTHONDONTWRITEBYTECODE': '1',
        'PYTHONHASHSEED': '0',
        'CRYPTOPARSER_VERIF': '1',
    })
    if extra:
        env.update(extra)
    return env


def use_repo():
    """Make `import cryptoparser` resolve to REPO's working tree in this process."""
    if sys.path[0] != REPO:
        sys.path.insert(0, REPO)
    os.environ.setdefault('CRYPTOPARSER_VERIF', '1')
    sys.dont_write_bytecode = True


def workdir(name):
    d = os.path.join(WORK, '%s-%d' % (name, os.getpid()))
    os.makedirs(d, exist_ok=True)
    return d


def cleanup(d):
    shutil.rmtree(d, ignore_errors=True)


class Lock(object):
    def __init__(self, name='build'):
        os.makedirs(WORK, exist_ok=True)
        self.path = os.path.join(WORK, name + '.lock')

    def __enter__(self):
        self.f = open(self.path, 'w')
        fcntl.flock(self.f, fcntl.LOCK_EX)
        return self

    def __exit__(self, *a):
        fcntl.flock(self.f, fcntl.LOCK_UN)
        self.f.close()


def write_if_changed(path, content):
    try:
        with open(path) as f:
            if f.read() == content:
                return False
    except IOError:
        pass
    tmp = path + '.tmp%d' % os.getpid()
    with open(tmp, 'w') as f:
        f.write(content)
    os.replace(tmp, path)
    return True


class BuildResult(object):
    def __init__(self, ok, log, failed_file=None, error=None):
        self.ok = ok
        self.log = log
        self.failed_file = failed_file
        self.error = error


def coq_make(targets, timeout=1500):
    """Full .vo build of the given targets (paths relative to coq/, .vo suffix) under the build lock."""
    with Lock('build'):
        regen_makefile()
        cmd = ['timeout', str(timeout), 'make', '-C', COQ, '-j%d' % NPROC] + list(targets)
        p = subprocess.run(cmd, stdout=subprocess.PIPE, stderr=subprocess.STDOUT, universal_newlines=True)
    log = p.stdout
    if p.returncode == 0:
        return BuildResult(True, log)
    m = re.search(r'File "\./?([^"]+)", line (\d+), characters [\d-]+:\n((?:.*\n){0,30})', log)
    failed = m.group(1) if m else None
    err = (m.group(0) if m else log[-3000:])
    return BuildResult(False, log, failed, err[:4000])


def regen_makefile():
    vfiles = []
    for root in ('theories', 'gen'):
        for dp, _, fns in os.walk(os.path.join(COQ, root)):
            for fn in sorted(fns):
                if fn.endswith('.v'):
                    vfiles.append(os.path.relpath(os.path.join(dp, fn), COQ))
    vfiles.sort()
    listing = '\n'.join(vfiles) + '\n' + open(os.path.join(COQ, '_CoqProject')).read()
    stamp = os.path.join(COQ, '.Makefile.files')
    if os.path.exists(os.path.join(COQ, 'Makefile')) and os.path.exists(stamp) and open(stamp).read() == listing:
        return
    subprocess.run(['coq_makefile', '-f', '_CoqProject', '-o', 'Makefile'] + vfiles, cwd=COQ,
                   stdout=subprocess.DEVNULL, stderr=subprocess.DEVNULL, check=True)
    with open(stamp, 'w') as f:
        f.write(listing)


def coqc_file(path, timeout=600):
    """Compile one scratch .v file (outside the project tree) and return (rc, output)."""
    d = os.path.dirname(path)
    cmd = ['bash', '-c', 'ulimit -s unlimited 2>/dev/null; exec "$@"', 'coqc-wrapper', 'timeout', str(timeout), 'coqc'] + COQ_FLAGS + ['-Q', d, 'Scratch', path]
    p = subprocess.run(cmd, stdout=subprocess.PIPE, stderr=subprocess.STDOUT, universal_newlines=True, cwd=d)
    return p.returncode, p.stdout


def theorem_names(props_file):
    """Names of the Theorem statements in a Props/Cxx.v file."""
    with open(os.path.join(COQ, props_file)) as f:
        src = f.read()
    src = re.sub(r'\(\*.*?\*\)', '', src, flags=re.S)
    return re.findall(r'^\s*Theorem\s+([A-Za-z0-9_\']+)', src, flags=re.M)


def print_assumptions(module, names, wd):
    """Ask Coq for the axioms each theorem depends on. Returns {name: [axioms]} ([] = closed)."""
    lines = ['From CP Require Import %s.' % module]
    for n in names:
        lines.append('Print Assumptions %s.' % n)
    path = os.path.join(wd, 'Assump_%s.v' % module.replace('.', '_'))
    with open(path, 'w') as f:
        f.write('\n'.join(lines) + '\n')
    rc, out = coqc_file(path)
    if rc != 0:
        raise RuntimeError('Print Assumptions failed: ' + out[-2000:])
    res = {}
    chunks = re.split(r'(?=Closed under the global context|Axioms:)', out)
    chunks = [c for c in chunks if c.startswith('Closed') or c.startswith('Axioms:')]
    if len(chunks) != len(names):
        raise RuntimeError('cannot parse Print Assumptions output: ' + out[-2000:])
    for n, c in zip(names, chunks):
        if c.startswith('Closed'):
            res[n] = []
        else:
            res[n] = re.findall(r'^([A-Za-z0-9_.\']+)\s*:', c[len('Axioms:'):], flags=re.M)
    return res


def eval_model(module_imports, exprs, wd, name='cases', timeout=900):
    """Evaluate Coq expressions of type `string` (one per case file entry) with vm_compute.

    exprs: list of Coq terms of type string (Coq.Strings.String). They are grouped into one file; the
    file prints one line per term between markers so that wrapped output is reassembled reliably.
    Returns list of python strings."""
    out_all = []
    shard = 100
    files = []
    for si in range(0, len(exprs), shard):
        part = exprs[si:si + shard]
        lines = ['From Coq Require Import String Ascii ZArith List.', 'Import ListNotations.', 'Open Scope string_scope.']
        lines += module_imports
        # results may contain any character: escape the separator (| -> \\p, \\ -> \\\\) before joining
        lines.append('Fixpoint verif_esc (s : string) : string := match s with EmptyString => EmptyString | String c r => '
                     'if Ascii.eqb c "|"%char then String "\\"%char (String "p"%char (verif_esc r)) '
                     'else if Ascii.eqb c "\\"%char then String "\\"%char (String "\\"%char (verif_esc r)) else String c (verif_esc r) end.')
        lines.append('Definition results : list string := [')
        lines.append(';\n'.join('  (%s)' % e for e in part))
        lines.append('].')
        lines.append('Definition joined := String.concat "|" (map verif_esc results).')
        lines.append('Eval vm_compute in joined.')
        path = os.path.join(wd, '%s_%d.v' % (name, si // shard))
        with open(path, 'w') as f:
            f.write('\n'.join(lines) + '\n')
        files.append(path)
    procs = []
    results = [None] * len(files)

    def run(i):
        rc, out = coqc_file(files[i], timeout)
        results[i] = (rc, out)

    import concurrent.futures
    with concurrent.futures.ThreadPoolExecutor(max_workers=NPROC) as ex:
        list(ex.map(run, range(len(files))))
    for i, (rc, out) in enumerate(results):
        if rc != 0:
            raise RuntimeError('model evaluation failed in %s: %s' % (files[i], out[-3000:]))
        m = re.search(r'=\s*"(.*)"\s*:\s*string', out, flags=re.S)
        if not m:
            raise RuntimeError('cannot parse model output: ' + out[-2000:])
        s = m.group(1)
        s = re.sub(r'\n\s*', '', s) if False else s
        # Coq wraps long strings only at spaces; we never emit spaces inside results except via %20 escaping
        s = s.replace('\n', '').replace('""', '"')
        parts = [re.sub(r'\\(.)', lambda mm: '|' if mm.group(1) == 'p' else mm.group(1), x) for x in s.split('|')]
        n_expected = min(shard, len(exprs) - i * shard)
        if len(parts) != n_expected:
            raise RuntimeError('model output count mismatch %d vs %d' % (len(parts), n_expected))
        out_all.extend(parts)
    return out_all


def coq_str(s):
    return '"' + s.replace('"', '""') + '"'


def coq_z(z):
    return '(%d)%%Z' % z if z < 0 else '%d%%Z' % z


def hexs(b):
    return bytes(b).hex()


# ---------------------------------------------------------------------------------------------------

def load_known_findings():
    with open(os.path.join(VERIF, 'known_findings.json')) as f:
        return json.load(f)


class Check(object):
    """Bookkeeping of one check run: violations, known findings, evidence."""

    def __init__(self, pid, tier, level='proof'):
        self.pid = pid
        self.tier = tier
        self.level = level
        self.seed = int(os.environ.get('VERIF_SEED', '20261001'))
        self.rng = random.Random(self.seed)
        self.t0 = time.time()
        self.violations = []
        self.known_hits = []
        self.coverage = {'samples': [], 'obligations': 0, 'discharged': 0, 'evaluations': 0,
                         'distinct_nontrivial': 0, 'trusted_base': [], 'checker_cmd': ''}
        self.assumptions = []
        self.findings = [f for f in load_known_findings()['findings'] if f['property'] == pid]
        self.wd = workdir(pid)
        os.makedirs(os.path.join(VERIF, 'replays'), exist_ok=True)
        os.makedirs(os.path.join(VERIF, 'evidence'), exist_ok=True)

    def sample(self, s, limit=12):
        if len(self.coverage['samples']) < limit:
            self.coverage['samples'].append(s)

    def known(self, key):
        for f in self.findings:
            if f.get('status', 'finding') == 'finding' and f['key'] == key:
                return f
        return None

    def violation(self, what, replay, key=None, found_input=True):
        """Record a violation. If `key` matches a listed known finding, it is reported as KNOWN-FINDING."""
        if key is not None:
            f = self.known(key)
            if f is not None:
                if key not in [k for k, _ in self.known_hits]:
                    self.known_hits.append((key, f['what']))
                return False
        replay = dict(replay)
        replay.update({'property': self.pid, 'what': what, 'seed': self.seed, 'key': key,
                       'failing_input_found': found_input})
        blob = json.dumps(replay, sort_keys=True, default=str)
        path = os.path.join(VERIF, 'replays', '%s-%s.json' % (self.pid, hashlib.sha256(blob.encode()).hexdigest()[:8]))
        with open(path, 'w') as f:
            f.write(json.dumps(replay, indent=1, sort_keys=True, default=str))
        self.violations.append((what, path, found_input))
        return True

    def finish(self):
        cov = self.coverage
        for key, what in self.known_hits:
            print('KNOWN-FINDING: property=%s %s [%s]' % (self.pid, what, key))
        seen = set()
        for what, path, found in self.violations[:20]:
            if path in seen:
                continue
            seen.add(path)
            print('VIOLATION property=%s replay=%s%s' % (self.pid, path, '' if found else ' no-failing-input-found'))
            print('  ' + what[:300])
        level = self.level
        if level == 'proof' and not cov['obligations']:
            # the proof stage never ran (machinery failure): do not claim a proof-level run
            level = 'other'
            cov['explanation'] = 'the check could not run its proof stage; see the VIOLATION line and the replay file'
        ev = {
            'property_id': self.pid,
            'tier': self.tier,
            'seed': self.seed,
            'level': level,
            'coverage': cov,
            'assumptions': self.assumptions,
            'wall_s': round(time.time() - self.t0, 2),
            'violations': len(self.violations),
            'known_findings_reported': [k for k, _ in self.known_hits],
        }
        with open(os.path.join(VERIF, 'evidence', self.pid + '.json'), 'w') as f:
            json.dump(ev, f, indent=1, sort_keys=True, default=str)
        cleanup(self.wd)
        print('%s %s: obligations=%d discharged=%d evaluations=%d distinct_nontrivial=%d violations=%d known=%d wall=%.1fs' % (
            self.pid, self.tier, cov['obligations'], cov['discharged'], cov['evaluations'], cov['distinct_nontrivial'],
            len(self.violations), len(self.known_hits), time.time() - self.t0))
        return 1 if self.violations else 0


FORBIDDEN = re.compile(r'\b(Admitted|admit|Axiom|Axioms|Parameter|Parameters|Conjecture|Conjectures|Admit\s+Obligations|native_compute|'
                       r'bypass_check)\b|Unset\s+Guard\s+Checking|Unset\s+Positivity\s+Checking|Unset\s+Universe\s+Checking|'
                       r'type-in-type|impredicative-set')
SECTION_LOCAL = re.compile(r'^\s*(?:Local\s+|Global\s+)?(Variable|Variables|Hypothesis|Hypotheses|Context)\b')


def forbidden_tokens():
    """Declarations that would put something outside the kernel's check: none may occur anywhere in the development
    (comments and strings stripped); Variable / Hypothesis / Context are allowed inside a Section only, where they are
    discharged as ordinary universally quantified premises when the section closes."""
    hits = []
    for root in (os.path.join(COQ, 'theories'), GEN, os.path.join(COQ, 'extract')):
        for d, _, files in os.walk(root):
            for f in sorted(files):
                if not f.endswith('.v'):
                    continue
                with open(os.path.join(d, f)) as fh:
                    text = fh.read()
                prev = None
                while prev != text:     # strip (nested) comments
                    prev = text
                    text = re.sub(r'\(\*(?:(?!\(\*|\*\)).)*?\*\)', ' ', text, flags=re.S)
                text = re.sub(r'"(?:[^"]|"")*"', '""', text)
                rel = os.path.relpath(os.path.join(d, f), COQ)
                for m in FORBIDDEN.finditer(text):
                    hits.append('%s: %s' % (rel, m.group(0)))
                stack = []
                for line in text.split('\n'):
                    m = re.match(r'^\s*(Section|Module(?:\s+Type)?)\s+(\w+)\s*\.', line)
                    if m:
                        stack.append((m.group(1)[0], m.group(2)))
                        continue
                    m = re.match(r'^\s*End\s+(\w+)\s*\.', line)
                    if m and stack:
                        stack.pop()
                        continue
                    m = SECTION_LOCAL.match(line)
                    if m and not any(k == 'S' for k, _ in stack):
                        hits.append('%s: %s outside a section' % (rel, m.group(1)))
    with open(os.path.join(COQ, '_CoqProject')) as fh:
        for m in FORBIDDEN.finditer(fh.read()):
            hits.append('_CoqProject: %s' % m.group(0))
    return hits


def proof_stage(chk, props_module, extra_targets=(), search=None):
    """Build Props/<Cxx>.vo (and everything it depends on), collect Print Assumptions.

    On failure: calls search(build_result) -> list of (what, replay, key, found) to look for a concrete failing
    input; if it yields nothing the broken theorem is reported with no-failing-input-found."""
    props_file = 'theories/' + props_module.replace('.', '/') + '.v'
    targets = [props_file + 'o'] + list(extra_targets)
    br = coq_make(targets)
    names = theorem_names(props_file)
    chk.coverage['obligations'] = len(names)
    chk.coverage['checker_cmd'] = 'make -C /verif/coq %s && coqc Print Assumptions <each theorem of %s>' % (
        ' '.join(targets), props_file)
    chk.coverage['trusted_base'] = [
        'Coq 8.16.1 kernel incl. vm_compute (no native_compute)',
        'harness/gen_tables.py (attribute reads of the live library -> coq/gen/*.v)',
        'correspondence harness (harness/*.py) and the Python interpreter running /repo',
        'hand-written Gallina model (coq/theories) of the anchored code, tied by the correspondence run',
    ]
    if not br.ok:
        chk.coverage['discharged'] = 0
        chk.coverage['broken_obligation'] = {'file': br.failed_file, 'error': br.error}
        found_any = False
        if search is not None:
            for what, replay, key, found in search(br):
                replay = dict(replay)
                replay['broken_obligation'] = {'file': br.failed_file, 'error': br.error}
                chk.violation(what, replay, key, found)
                found_any = True
        if not found_any:
            chk.violation('proof obligation no longer checks: %s' % br.failed_file,
                          {'broken_obligation': {'file': br.failed_file, 'error': br.error}}, None, False)
        return False
    bad = forbidden_tokens()
    chk.coverage['forbidden_declarations'] = bad
    for b in bad[:5]:
        chk.violation('the Coq development contains a declaration outside the kernel\'s check: %s' % b, {'forbidden': b}, None, False)
    assum = print_assumptions(props_module, names, chk.wd)
    closed = 0
    for n in names:
        ax = [a for a in assum[n] if a not in ALLOWED_AXIOMS]
        if ax:
            chk.violation('theorem %s depends on undeclared axioms %s' % (n, ax), {'theorem': n, 'axioms': ax}, None, False)
        else:
            closed += 1
    chk.coverage['discharged'] = closed
    chk.coverage['theorems'] = names
    chk.coverage['print_assumptions'] = {n: (assum[n] or 'Closed under the global context') for n in names}
    return True


# ---------------------------------------------------------------------------------------------------
# extracted OCaml runner

EXTRACT = os.path.join(COQ, 'extract')
RUNNER = os.path.join(EXTRACT, 'build', 'runner')


def build_runner():
    """(Re)build the OCaml program extracted from Run/Run.v when it is older than Run.vo. Build lock held."""
    run_vo = os.path.join(COQ, 'theories', 'Run', 'Run.vo')
    br = coq_make(['theories/Run/Run.vo'])
    if not br.ok:
        return br
    with Lock('runner'):
        srcs = [run_vo, os.path.join(EXTRACT, 'Extract.v'), os.path.join(EXTRACT, 'driver.ml')]
        if os.path.exists(RUNNER) and all(os.path.getmtime(RUNNER) >= os.path.getmtime(s) for s in srcs):
            return br
        b = os.path.join(EXTRACT, 'build')
        os.makedirs(b, exist_ok=True)
        shutil.copy(os.path.join(EXTRACT, 'driver.ml'), b)
        p = subprocess.run(['timeout', '600', 'coqc'] + COQ_FLAGS + ['-o', 'Extract.vo', os.path.join(EXTRACT, 'Extract.v')],
                           cwd=b, stdout=subprocess.PIPE, stderr=subprocess.STDOUT, universal_newlines=True)
        if p.returncode != 0:
            return BuildResult(False, p.stdout, 'extract/Extract.v', p.stdout[-3000:])
        p = subprocess.run(['timeout', '600', 'ocamlfind', 'ocamlopt', '-O3', '-w', '-a', 'model.mli', 'model.ml', 'driver.ml',
                            '-o', 'runner.tmp'], cwd=b, stdout=subprocess.PIPE, stderr=subprocess.STDOUT, universal_newlines=True)
        if p.returncode != 0:
            return BuildResult(False, p.stdout, 'extract/driver.ml', p.stdout[-3000:])
        os.replace(os.path.join(b, 'runner.tmp'), RUNNER)
    return br


def run_model(lines, shards=NPROC):
    """Run command lines through the extracted model. Returns list of outcome strings."""
    if not lines:
        return []
    n = max(1, min(shards, len(lines) // 200 or 1))
    size = (len(lines) + n - 1) // n
    parts = [lines[i:i + size] for i in range(0, len(lines), size)]
    procs = []
    for part in parts:
        p = subprocess.Popen(['bash', '-c', 'ulimit -s unlimited 2>/dev/null; exec %s' % RUNNER], stdin=subprocess.PIPE,
                             stdout=subprocess.PIPE, universal_newlines=True)
        procs.append((p, part))
    import threading
    outs = [None] * len(procs)

    def feed(i):
        p, part = procs[i]
        o, _ = p.communicate('\n'.join(part) + '\n')
        outs[i] = o

    ths = [threading.Thread(target=feed, args=(i,)) for i in range(len(procs))]
    for t in ths:
        t.start()
    for t in ths:
        t.join()
    res = []
    for (p, part), o in zip(procs, outs):
        ls = o.split('\n')
        if ls and ls[-1] == '':
            ls.pop()
        if p.returncode != 0 or len(ls) != len(part):
            raise RuntimeError('model runner failed (rc=%s, %d answers for %d commands): %s' % (p.returncode, len(ls), len(part), o[-500:]))
        res.extend(ls)
    return res
