# C17: TLS protocol versions form a strict total order consistent with equality.
import itertools
import json

from harness import common

LEVEL = 'proof'


def versions():
    from cryptodatahub.tls.version import TlsVersion
    from cryptoparser.tls.version import TlsProtocolVersion
    return [(name, TlsProtocolVersion(m)) for name, m in TlsVersion.__members__.items()]


def impl_pair_bits(a, b):
    return ''.join('1' if x else '0' for x in (a < b, a <= b, a == b, a > b, a >= b, hash(a) == hash(b)))


def predicate_failures(vs, rng, shuffles):
    """The property itself, evaluated on the implementation. Yields (what, replay)."""
    from cryptodatahub.tls.version import TlsVersion
    names = [n for n, _ in vs]
    objs = [v for _, v in vs]
    n = len(objs)
    lt = [[bool(objs[i] < objs[j]) for j in range(n)] for i in range(n)]
    eq = [[bool(objs[i] == objs[j]) for j in range(n)] for i in range(n)]
    for i in range(n):
        for j in range(n):
            cnt = int(lt[i][j]) + int(eq[i][j]) + int(lt[j][i])
            if cnt != 1:
                yield ('trichotomy fails for %s, %s' % (names[i], names[j]),
                       {'kind': 'pair', 'a': names[i], 'b': names[j]})
                return
            if eq[i][j] and hash(objs[i]) != hash(objs[j]):
                yield ('equal versions hash differently: %s, %s' % (names[i], names[j]),
                       {'kind': 'pair', 'a': names[i], 'b': names[j]})
                return
            ops = (objs[i] <= objs[j], objs[i] > objs[j], objs[i] >= objs[j])
            if ops != (not lt[j][i], lt[j][i], not lt[i][j]):
                yield ('derived operators inconsistent for %s, %s' % (names[i], names[j]),
                       {'kind': 'pair', 'a': names[i], 'b': names[j]})
                return
    for i in range(n):
        for j in range(n):
            if not lt[i][j]:
                continue
            for k in range(n):
                if lt[j][k] and not lt[i][k]:
                    yield ('intransitive: %s < %s < %s but not %s < %s' % (names[i], names[j], names[k], names[i], names[k]),
                           {'kind': 'triple', 'a': names[i], 'b': names[j], 'c': names[k]})
                    return
    # chain of the property text
    by = dict(vs)
    chain = ['SSL2', 'SSL3', 'TLS1', 'TLS1_1', 'TLS1_2']
    for x, y in zip(chain, chain[1:]):
        if not by[x] < by[y]:
            yield ('chain broken: not %s < %s' % (x, y), {'kind': 'pair', 'a': x, 'b': y})
            return
    for name, v in vs:
        if name in chain or name == 'TLS1_3':
            continue
        if not (by['TLS1_2'] < v and v < by['TLS1_3']):
            yield ('%s is not between TLS1_2 and TLS1_3' % name, {'kind': 'triple', 'a': 'TLS1_2', 'b': name, 'c': 'TLS1_3'})
            return
    drafts = [(nm, v) for nm, v in vs if v.is_draft]
    for (n1, a), (n2, b) in itertools.product(drafts, drafts):
        if (a < b) != (a.minor < b.minor):
            yield ('drafts not ordered by number: %s, %s' % (n1, n2), {'kind': 'pair', 'a': n1, 'b': n2})
            return
    ref = sorted(objs)
    for _ in range(shuffles):
        perm = list(range(n))
        rng.shuffle(perm)
        shuffled = [objs[i] for i in perm]
        if sorted(shuffled) != ref or max(shuffled) != ref[-1] or min(shuffled) != ref[0]:
            yield ('sorted/max/min depends on arrival order', {'kind': 'shuffle', 'order': [names[i] for i in perm]})
            return
    if ref[-1].version != TlsVersion.TLS1_3:
        yield ('max of all versions is %s' % ref[-1].version.name, {'kind': 'shuffle', 'order': names})


def run(chk):
    vs = versions()
    names = [n for n, _ in vs]
    shuffles = 200 if chk.tier == 'quick' else 5000

    def search(_br):
        return [(w, r, None, True) for w, r in predicate_failures(vs, chk.rng, shuffles)]

    proved = common.proof_stage(chk, 'Props.C17', ['theories/Tls/VersionRun.vo'], search)

    # property predicate on the implementation, exhaustive over the finite domain
    fails = list(predicate_failures(vs, chk.rng, shuffles))
    for w, r in fails:
        chk.violation(w, r, None, True)

    # correspondence: every ordered pair, six observations each, model (vm_compute) vs implementation
    impl = ''.join(impl_pair_bits(a, b) for _, a in vs for _, b in vs)
    evals = len(vs) ** 2
    if proved:
        model = common.eval_model(['From CP Require Import Tls.VersionRun.'], ['run_pairs'], chk.wd)[0]
        if model != impl:
            diffs = [i for i in range(min(len(model), len(impl))) if model[i] != impl[i]]
            i = diffs[0] // 6 if diffs else 0
            a, b = names[i // len(vs)], names[i % len(vs)]
            if not fails:
                chk.violation('correspondence Tls/Version.v vs tls/version.py broke at pair (%s, %s): model %s impl %s' % (
                    a, b, model[i * 6:i * 6 + 6], impl[i * 6:i * 6 + 6]),
                    {'kind': 'pair', 'a': a, 'b': b, 'correspondence': 'Tls.VersionRun.run_pairs',
                     'model_bits': model[i * 6:i * 6 + 6], 'impl_bits': impl[i * 6:i * 6 + 6]}, None, False)
    chk.coverage['evaluations'] = evals * 6 + len(vs) ** 3 + shuffles
    chk.coverage['distinct_nontrivial'] = sum(1 for (_, a), (_, b) in itertools.product(vs, vs) if a is not b)
    chk.coverage['exhaustive'] = True
    chk.coverage['rule'] = ('all ordered pairs of the %d TlsVersion members x (<, <=, ==, >, >=, hash-eq) compared with the '
                            'Coq model; all triples checked for transitivity on the implementation; %d shuffles for '
                            'sorted/max/min; non-trivial = pairs of distinct members' % (len(vs), shuffles))
    chk.coverage['traces_validated_against_impl'] = evals
    for (n1, a), (n2, b) in list(itertools.product(vs[4:8], vs[8:10])):
        chk.sample({'a': n1, 'b': n2, 'lt,le,eq,gt,ge,hasheq': impl_pair_bits(a, b)})
    chk.assumptions += ['TlsProtocolVersion is modelled by the 16-bit code of its TlsVersion member',
                        'hash() is modelled as the identity of the hashed enum member (CPython hash values are not modelled)']


def replay(path):
    with open(path) as f:
        r = json.load(f)
    by = dict(versions())
    k = r.get('kind')
    if k == 'pair':
        a, b = by[r['a']], by[r['b']]
        print('a=%s b=%s lt,le,eq,gt,ge,hasheq=%s reverse=%s' % (r['a'], r['b'], impl_pair_bits(a, b), impl_pair_bits(b, a)))
        ok = (int(a < b) + int(a == b) + int(b < a)) == 1
    elif k == 'triple':
        a, b, c = by[r['a']], by[r['b']], by[r['c']]
        print('a<b=%s b<c=%s a<c=%s' % (a < b, b < c, a < c))
        ok = not (a < b and b < c) or (a < c)
    elif k == 'shuffle':
        objs = [by[n] for n in r['order']]
        print('max=%s' % max(objs).version.name)
        ok = max(objs).version.name == 'TLS1_3' and sorted(objs) == sorted(by.values())
    else:
        print(json.dumps(r.get('broken_obligation', r), indent=1)[:3000])
        ok = False
    print('replay: property %s' % ('holds on this input' if ok else 'FAILS on this input'))
    return 0 if ok else 1
