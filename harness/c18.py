# C18: insignificant spelling of text fields never changes what is parsed.
import collections
import json

from harness import common, c18gen, gen_tables

LEVEL = 'proof'

PRINTABLE = [chr(c) for c in range(0x21, 0x7f)]


def rnd_text(rng, sep):
    """Mostly list-shaped text over a small alphabet rich in the characters the tokeniser cares about."""
    alpha = [sep, sep, ' ', ' ', '\t', '=', '=', '"', 'a', 'B', 'c', 'max-age', 'x', '1', ';', ',', 'Preload', 'includeSubDomains']
    return ''.join(rng.choice(alpha) for _ in range(rng.randint(0, 14)))


def gen_model_lines(rng, tier, schemas):
    n = 120 if tier == 'quick' else 3000
    lines = []
    for sep in (';', ','):
        lines.append('nvl %s -' % sep.encode().hex())
        for _ in range(n):
            t = rnd_text(rng, sep)
            lines.append('nvl %s %s' % (sep.encode().hex(), t.encode().hex() or '-'))
    fams = {f.cls.__name__: f for f in c18gen.families()}
    for cname, sep, _ext, rows in schemas:
        fam = fams.get(cname)
        for _ in range(max(10, n // 8)):
            if fam is not None and rng.random() < 0.7:
                v = fam.value(rng)
                if v is None:
                    continue
                heads, free = v
                sp = rng.choice(c18gen.spellings(rng, fam, heads, free, 1))[1]
                if rng.random() < 0.3:    # drop / duplicate a piece: required attributes missing, duplicate names
                    parts = sp.split(sep)
                    k = rng.randrange(len(parts))
                    parts = parts[:k] + (parts[k:k + 1] * rng.choice([0, 2])) + parts[k + 1:]
                    sp = sep.join(parts)
            else:
                names = [r[1] for r in rows if r[1]]
                pieces = []
                for _ in range(rng.randint(0, 5)):
                    nm = rng.choice(names + ['zz', '']) if names else 'zz'
                    nm = c18gen.rnd_case(rng, nm) if rng.random() < 0.5 else nm
                    pieces.append(nm + rng.choice(['', '', '=1', '="q"', '=', '==2']))
                sp = (c18gen.ws_run(rng) + sep + c18gen.ws_run(rng)).join(pieces)
            lines.append('fvm %s %s' % (cname, sp.encode().hex() or '-'))
    # Set-Cookie: the name-value pair in every spelling (white space around name and value, runs of ";"), in front of attribute
    # lists spelled by the family generator, of nothing, and of text the attribute-list parser refuses
    for _ in range(n):
        r = c18gen.cookie_cases(rng)
        rests = ['']
        if r is not None:
            rests += [t.split(';', 1)[1] if ';' in t else '' for _, t in r[2][:3]]
        rests += [' Secure', 'Secure;', ' x', 'Max-Age=x', ' =', '  ']
        name = rng.choice(['sid', 'SID', 'a', '__Host-id', 'a b', '', 'n;m', '"q"'])
        value = rng.choice(['abc', '31d4d96e407aad42', '', 'a b', 'a=b', '"quoted"', 'x\ty', '='])
        ws = lambda: rng.choice(['', '', ' ', '\t', ' \t', '  '])
        k = rng.random()
        if k < 0.1:
            text = ws() + name + ws() + value          # no "="
        else:
            text = ws() + name + ws() + '=' + ws() + value + ws()
            if k < 0.8:
                text += ';' * rng.choice([1, 1, 1, 2, 3]) + rng.choice(rests)
        lines.append('cookiepair %s' % (text.encode().hex() or '-'))
    # Strict-Transport-Security end to end (value classes included): spellings of values, and malformed ones
    sts = [f for f in c18gen.families() if f.name == 'HSTS'][0]
    for _ in range(n):
        v = sts.value(rng)
        heads, free = v
        text = rng.choice(c18gen.spellings(rng, sts, heads, free, 1))[1]
        k = rng.random()
        if k < 0.25:
            text = text.replace('max-age=', rng.choice(['max-age==', 'max-age', 'max-age=x', 'max-age=-', 'Max-Age="', 'max-age= ']), 1)
        elif k < 0.35:
            text = text.replace('preload', rng.choice(['preload=1', 'preloadx', 'pre load']), 1)
        elif k < 0.45:
            text += rng.choice(['; max-age=7', '; MAX-AGE=8', ';max-age=99999999999999999', '; max-age=86399999999999'])
        lines.append('sts %s' % (text.encode().hex() or '-'))
    for _ in range(n):
        name = rng.choice(['Server', 'SERVER', 'server', 'X-Foo', 'Serve', 'Server ', '', 'A:B'])
        val = ''.join(rng.choice(['a', 'b', ' ', '\t', ':', 'x y', '\r', '\n']) for _ in range(rng.randint(0, 6)))
        line = name + rng.choice([':', ':', ': ', ':\t', ':  ', '::', '']) + val + rng.choice(['\r\n', '\r\n', '\r\nrest', '', '\n', ' \r\n', '\t\r\n'])
        lines.append('hline %d %s' % (rng.randint(0, 1), line.encode().hex() or '-'))
    return lines


def parse(cls, text):
    try:
        return ('ok', cls.parse_exact_size(text if isinstance(text, bytes) else text.encode('ascii')))
    except Exception as e:  # pylint: disable=broad-except
        return ('exc', type(e).__name__)


def show(r):
    if r[0] == 'exc':
        return r[1]
    try:
        return bytes(r[1].compose()).decode('ascii', 'replace')
    except Exception as e:  # pylint: disable=broad-except
        return '<%s: compose fails with %s>' % (type(r[1]).__name__, type(e).__name__)


def spf_significant(obj):
    """An SPF record keeps unknown modifiers in its term list by design; compare without them."""
    from cryptoparser.dnsrec import txt
    return (obj.version, [t for t in obj.terms if not isinstance(t, txt.DnsRecordTxtValueSpfModifierUnknown)])


def same(cls, a, b, rule):
    if a[0] != b[0]:
        return False
    if a[0] == 'exc':
        return a[1] == b[1]
    if cls.__name__ == 'DnsRecordTxtValueSpf' and rule == 'unknown-directive':
        return spf_significant(a[1]) == spf_significant(b[1])
    return a[1] == b[1]


def family_cases(rng, n):
    """(family, class, canonical text, [(rule, text)])"""
    out = []
    for fam in c18gen.families():
        got = 0
        for _ in range(n * 3):
            if got >= n:
                break
            v = fam.value(rng)
            if v is None:
                continue
            heads, free = v
            canon = c18gen.render(fam.sep(), [c18gen.render_directive(d) for d in heads + free])
            if parse(fam.cls, canon)[0] != 'ok':
                continue
            got += 1
            out.append((fam.name, fam.cls, canon, c18gen.spellings(rng, fam, heads, free, 1)))
    for gen, name in ((c18gen.cookie_cases, 'Set-Cookie'), (c18gen.csp_cases, 'CSP'), (c18gen.nel_cases, 'NEL'), (c18gen.spf_cases, 'SPF')):
        for _ in range(n):
            r = gen(rng)
            if r is not None:
                out.append((name,) + r)
    return out


def header_cases(rng, values, n):
    """Header lines built from canonical values: name case, optional white space, blocks of mixed known/unknown fields."""
    from cryptoparser.httpx import header as h
    from cryptoparser.common.utils import get_leaf_classes
    classes = list(get_leaf_classes(h.HttpHeaderFieldParsedBase))
    cases = []
    for cls in classes:
        name = cls.get_header_field_name().value.normalized_name
        vs = values.get(cls._get_value_class().__name__, [])  # pylint: disable=protected-access
        for v in vs[:n]:
            canon = '%s: %s\r\n\r\n' % (name, v)
            var = [('field-name-case', '%s: %s\r\n\r\n' % (c18gen.rnd_case(rng, name), v)),
                   ('ows-after-colon', '%s:%s%s\r\n\r\n' % (name, c18gen.ws_run(rng), v)),
                   ('ows-before-crlf', '%s: %s%s\r\n\r\n' % (name, v, c18gen.ws_run(rng, maxn=2) or ' ')),
                   ('combined', '%s:%s%s%s\r\n\r\n' % (c18gen.rnd_case(rng, name), c18gen.ws_run(rng), v, c18gen.ws_run(rng, maxn=2)))]
            cases.append(('header-line', h.HttpHeaderFields, canon, var))
    return cases, classes


def block_cases(rng, values, classes, n):
    """A block parses to the list of its lines parsed one by one, whether or not a field type is known or its value usable."""
    blocks = []
    garbage = ['', 'x', '1 x', '"', '=', ';', 'max-age', 'max-age=', 'max-age=x', '1;', '{', '{}', 'null', 'text/', 'a=', '=b',
               'a=b; max-age=x', "default-src", '0', 'Thu, 32 Jan 1970 00:00:00 GMT', ',,', 'no-cache x']
    for _ in range(n):
        lines = []
        for _ in range(rng.randint(1, 6)):
            k = rng.random()
            if k < 0.35:
                lines.append('%s: %s' % (rng.choice(['X-Custom', 'Via', 'x-request-id', 'Accept-Ranges', 'X']), rng.choice(['1', 'a b', 'bytes', 'x=y; z'])))
            else:
                cls = rng.choice(classes)
                name = cls.get_header_field_name().value.normalized_name
                vs = values.get(cls._get_value_class().__name__, [])  # pylint: disable=protected-access
                if k < 0.75 and vs:
                    lines.append('%s: %s' % (c18gen.rnd_case(rng, name) if rng.random() < 0.3 else name, rng.choice(vs)))
                else:
                    lines.append('%s: %s' % (name, rng.choice(garbage)))
        blocks.append(lines)
    return blocks


def canonical_values(rng, n):
    """{value class name: [canonical texts]} from the family generators (composed by the library itself)."""
    vals = collections.OrderedDict()
    for fam, cls, canon, _ in family_cases(rng, n):
        r = parse(cls, canon)
        if r[0] == 'ok':
            try:
                vals.setdefault(cls.__name__, []).append(bytes(r[1].compose()).decode('ascii'))
            except Exception:  # pylint: disable=broad-except
                pass
    simple = {
        'HttpHeaderFieldValueETag': ['12345678', 'W/"abc"'], 'HttpHeaderFieldValueAge': ['1', '86400'],
        'HttpHeaderFieldValueDate': c18gen.DATES, 'HttpHeaderFieldValueExpires': c18gen.DATES, 'HttpHeaderFieldValueLastModified': c18gen.DATES,
        'HttpHeaderFieldValuePragma': ['no-cache'], 'HttpHeaderFieldValueReferrerPolicy': ['origin', 'same-origin', 'no-referrer'],
        'HttpHeaderFieldValueServer': ['nginx', 'Apache/2.4.1 (Unix)'], 'HttpHeaderFieldValueXContentTypeOptions': ['nosniff'],
        'HttpHeaderFieldValueXFrameOptions': ['DENY', 'SAMEORIGIN'],
    }
    for k, v in simple.items():
        vals.setdefault(k, []).extend(v)
    return vals


def search_schema(chk):
    """The proof stage broke: look for a concrete spelling on which the implementation's own answers differ."""
    rng = chk.rng
    found = []
    for fname, cls, canon, variants in family_cases(rng, 40):
        c = parse(cls, canon)
        if c[0] != 'ok':
            continue
        for rule, text in variants:
            r = parse(cls, text)
            if not same(cls, r, c, rule) and chk.known('%s/%s' % (fname, rule)) is None:
                found.append(('%s: the %s spelling "%s" parses to %s, the canonical "%s" to %s' % (fname, rule, text[:100], show(r)[:100], canon[:100], show(c)[:100]),
                              {'family': fname, 'class': cls.__name__, 'rule': rule, 'canonical': canon, 'variant': text}, None, True))
                if len(found) >= 3:
                    return found
    return found


def run(chk):
    from harness import impl
    rng = chk.rng
    quick = chk.tier == 'quick'
    schemas = gen_tables.field_schemas()
    proved = common.proof_stage(chk, 'Props.C18', [], lambda br: search_schema(chk))
    del proved
    # ---- correspondence: tokeniser, dictionary, attribute matching, header-line split: model vs implementation ----
    lines = gen_model_lines(rng, chk.tier, schemas)
    br = common.build_runner()
    nv = 0
    if br.ok:
        model_out = common.run_model(lines)
        for l, m in zip(lines, model_out):
            i = impl.impl_line(l)
            if l.startswith('cookiepair ') and m.startswith('OK '):
                # the model hands the remainder to the attribute-list parser, which is the implementation's own here: what it
                # makes of the remainder (its composed form, or its refusal) is what the whole parse must give
                mw = m.split(' ')
                rest = impl.impl_line('cookieparams ' + mw[3])
                m = ' '.join(mw[:3] + [rest[3:]]) if rest.startswith('OK ') else rest
            if m != i and nv < 5:
                nv += 1
                ws = l.split(' ')
                chk.violation('correspondence Text/Field.v vs the implementation broke on "%s %s": model %s, implementation %s' % (
                    ' '.join(ws[:-1]), bytes.fromhex(ws[-1] if ws[-1] != '-' else '').decode('ascii', 'replace')[:80], m[:90], i[:90]),
                    {'cmd': l, 'model': m, 'impl': i, 'correspondence': ws[0]}, None, False)
    else:
        chk.violation('model runner does not build: %s' % br.failed_file, {'error': br.error}, None, False)
    # ---- implementation against the grammar: every family, every rule ----
    n = 12 if quick else 150
    cases = family_cases(rng, n)
    values = canonical_values(rng, 3 if quick else 10)
    hcases, classes = header_cases(rng, values, 2 if quick else 6)
    counts = collections.Counter()
    reported = collections.Counter()
    for fname, cls, canon, variants in cases + hcases:
        c = parse(cls, canon)
        if c[0] != 'ok':
            counts['%s/canonical-rejected' % fname] += 1
            continue
        # the spelling written by compose is one of the variants
        variants = list(variants) + [('composed', bytes(c[1].compose()).decode('ascii', 'replace')) if not show(c).startswith('<') else ('composed', '')]
        for rule, text in variants:
            counts['%s/%s' % (fname, rule)] += 1
            r = parse(cls, text)
            if same(cls, r, c, rule):
                continue
            key = '%s/%s' % (fname, rule)
            if chk.known(key) is None:
                if reported[key] >= 2:
                    continue
                reported[key] += 1
            chk.violation('%s: the %s spelling "%s" parses to %s, the canonical "%s" to %s' % (fname, rule, text[:120], show(r)[:120], canon[:120], show(c)[:120]),
                          {'family': fname, 'class': cls.__name__, 'rule': rule, 'canonical': canon, 'variant': text}, key, True)
    # ---- header blocks ----
    from cryptoparser.httpx import header as h
    blocks = block_cases(rng, values, classes, 40 if quick else 1500)
    for lines_ in blocks:
        whole = parse(h.HttpHeaderFields, '\r\n'.join(lines_) + '\r\n\r\n')
        single = [parse(h.HttpHeaderFields, ln + '\r\n\r\n') for ln in lines_]
        counts['header-block/lines'] += len(lines_)
        ok = whole[0] == 'ok' and all(s[0] == 'ok' and len(s[1]) == 1 for s in single) and list(whole[1]) == [s[1][0] for s in single]
        if not ok:
            key = 'header-block/list-of-lines'
            if chk.known(key) is None:
                if reported[key] >= 2:
                    continue
                reported[key] += 1
            chk.violation('a header block does not parse to the list of its fields parsed one by one: %s -> %s' % (lines_, show(whole)[:80] if whole[0] == 'exc' else 'different list'),
                          {'block': lines_}, key, True)
    # a field value with a byte outside ASCII (obs-text) makes the whole block unparsable
    blk = b'X-A: 1\r\nServer: caf\xe9\r\nX-B: 2\r\n\r\n'
    counts['header-block/non-ascii-value'] += 1
    if parse(h.HttpHeaderFields, blk)[0] != 'ok':
        chk.violation('a header block with a non-ASCII byte in one field value is rejected as a whole', {'block_hex': blk.hex()},
                      'header-block/non-ascii-value', True)
    chk.coverage['evaluations'] = len(lines) + sum(counts.values())
    chk.coverage['distinct_nontrivial'] = len(counts)
    chk.coverage['traces_validated_against_impl'] = len(lines)
    chk.coverage['spellings_per_family_and_rule'] = dict(sorted(counts.items()))
    chk.coverage['rule'] = ('model vs implementation: NameValuePairList tokeniser and dictionary on random separator-rich text, the attribute matching of every '
                            'FieldValueMultiple class of the generated table (real _parse_basic_params and _check_name, value parsers replaced by recorders), '
                            'header-line split, Strict-Transport-Security end to end (value classes included, error kinds compared); implementation vs grammar: for every family the canonical text and spellings by rule (name case, optional white '
                            'space, empty elements, order, quoting, unknown directives, all combined, the composed spelling), header lines (field-name case, '
                            'OWS after the colon and before CRLF), header blocks of known, unknown and unusable fields against their lines parsed one by one')
    for fname, cls, canon, variants in (cases + hcases)[::max(1, len(cases + hcases) // 8)]:
        chk.sample({'family': fname, 'canonical': canon[:100], 'variant': variants[0][1][:100] if variants else ''})
    chk.assumptions += ['component value classes (dates, URLs, enums), CSP source expressions, the NEL JSON decoder and the SPF term grammar have no Coq model; '
                        'they are exercised by the implementation-vs-grammar run only',
                        'SPF: unknown modifiers are kept in the term list by design and are left out of the comparison for the unknown-directive rule; MTA-STS and '
                        'TLSRPT keep unknown tags in an extensions attribute, so no unknown-directive spellings are generated for them']


def replay(path):
    from harness import impl
    with open(path) as f:
        r = json.load(f)
    if 'cmd' in r:
        o = impl.impl_line(r['cmd'])
        m = common.run_model([r['cmd']])[0] if common.build_runner().ok else r.get('model')
        print('%s\n implementation: %s\n model:          %s' % (r['cmd'][:200], o[:200], m[:200]))
        ok = o == m
    elif 'variant' in r:
        import importlib
        cls = None
        for mod in ('cryptoparser.httpx.header', 'cryptoparser.dnsrec.txt'):
            cls = cls or getattr(importlib.import_module(mod), r['class'], None)
        c = parse(cls, r['canonical'])
        variant = r['variant']
        if r.get('rule') == 'composed' and c[0] == 'ok' and not show(c).startswith('<'):
            variant = show(c)        # the spelling compose writes on the tree the replay runs on, not the one recorded
        v = parse(cls, variant)
        print('canonical %r -> %s\nvariant   %r -> %s' % (r['canonical'], show(c), variant, show(v)))
        ok = same(cls, c, v, r['rule'])
    elif 'block' in r:
        from cryptoparser.httpx import header as h
        whole = parse(h.HttpHeaderFields, '\r\n'.join(r['block']) + '\r\n\r\n')
        single = [parse(h.HttpHeaderFields, ln + '\r\n\r\n') for ln in r['block']]
        print('block %r -> %s' % (r['block'], whole[1] if whole[0] == 'exc' else [type(x).__name__ for x in whole[1]]))
        ok = whole[0] == 'ok' and all(s[0] == 'ok' and len(s[1]) == 1 for s in single) and list(whole[1]) == [s[1][0] for s in single]
    elif 'block_hex' in r:
        from cryptoparser.httpx import header as h
        whole = parse(h.HttpHeaderFields, bytes.fromhex(r['block_hex']))
        print('block %r -> %s' % (bytes.fromhex(r['block_hex']), whole[1] if whole[0] == 'exc' else 'parsed'))
        ok = whole[0] == 'ok'
    else:
        print(json.dumps(r, indent=1)[:3000])
        return 1
    print('replay: property %s' % ('holds on this input' if ok else 'FAILS on this input'))
    return 0 if ok else 1
