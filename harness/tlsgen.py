# generator of TLS structures (client/server hellos, extensions) in the textual form shared by model and implementation
from harness import gen_tables, framegen

GREASE2 = [0x0a0a + 0x1010 * i for i in range(16)]
GREASE1 = [0x0b, 0x2a, 0x49, 0x68, 0x87, 0xa6, 0xc5, 0xe4]   # RFC 8701 one-byte values (PskKeyExchangeModes): not GREASE in a two-byte field


def codes_of(factory):
    return [int(m.value.code) for m in gen_tables.enum_factories()[factory][2]]


def rnd_codes(rng, known, width, n, grease=True, unknown=True):
    out = []
    for _ in range(n):
        r = rng.random()
        if r < 0.65:
            out.append(rng.choice(known))
        elif r < 0.8 and grease and width == 2:
            out.append(rng.choice(GREASE2))
        elif unknown and width == 2 and rng.random() < 0.35:
            # near misses of the RFC 8701 pattern: both low nibbles 0xA but different bytes, one byte of a GREASE value,
            # neighbours of GREASE values
            g = rng.choice(GREASE2)
            out.append(rng.choice([(g & 0xff00) | (rng.choice(GREASE2) & 0xff), g ^ 0x0100, g ^ 0x0001, (g + 1) & 0xffff, g - 1,
                                   g & 0xff00, g & 0x00ff, (g & 0xff00) | 0x0b, rng.choice(GREASE1)]))
        elif unknown:
            out.append(rng.randrange(256 ** width))
        else:
            out.append(rng.choice(known))
    return out


def ext_payload(rng, impl, kind):
    """(extension type, payload hex) through the specification encoder command; None if the spec rejects it"""
    if kind == 'G':
        return 10, 'extenc G %s' % ','.join(map(str, rnd_codes(rng, codes_of('TlsNamedCurveFactory'), 2, rng.choice([1, 2, 4, 9]))))
    if kind == 'P':
        return 11, 'extenc P %s' % ','.join(map(str, rnd_codes(rng, codes_of('TlsECPointFormatFactory'), 1, rng.choice([1, 2, 3]), unknown=rng.random() < 0.3)))
    if kind == 'V':
        return 43, 'extenc V %s' % ','.join(map(str, rnd_codes(rng, codes_of('TlsVersionFactory'), 2, rng.choice([1, 2, 5]))))
    if kind == 'S':
        return 13, 'extenc S %s' % ','.join(map(str, rnd_codes(rng, codes_of('TlsSignatureAndHashAlgorithmFactory'), 2, rng.choice([1, 3, 8]))))
    if kind == 'A':
        names = [m.value.code.encode('ascii').hex() for m in gen_tables.opaque_enum_factories()['TlsProtocolNameFactory']['enum']]
        return 16, 'extenc A %s' % ','.join(rng.choice(names) for _ in range(rng.choice([1, 2, 3])))
    if kind == 'N':
        host = rng.choice([b'example.com', b'www.example.org', b'a.b', b'localhost'])
        return 0, 'extenc N %s' % host.hex()
    if kind == 'K':
        return 45, 'extenc K %s' % ','.join(map(str, rnd_codes(rng, codes_of('TlsPskKeyExchangeModeFactory'), 1, rng.choice([1, 2]), unknown=False)))
    if kind == 'L':
        return 28, 'extenc L %d' % rng.choice([64, 512, 16384, 16385])
    if kind == 'R':
        return 65281, 'extenc R %s' % (framegen.rnd_bytes(rng, rng.choice([0, 0, 12])).hex() or '-')
    raise KeyError(kind)


_HARVESTED = None


def _corpus(side):
    """the committed corpus of harvested extensions (harness/corpus_extensions.json): fixed, so that a tree that starts to refuse an
    extension cannot thereby take it out of the generated hellos; None when the file is missing (then harvested afresh)"""
    import json
    import os
    path = os.path.join(os.path.dirname(os.path.abspath(__file__)), 'corpus_extensions.json')
    try:
        with open(path) as f:
            return sorted((int(t), p) for t, p in json.load(f)[side])
    except (OSError, ValueError, KeyError):
        return None


def harvested_client_extensions():
    """(type, payload hex) of the extensions the repository tests parse on their own and a client hello may carry: every extension
    class of the library (session ticket, key share, status request, padding, ...) is thereby met inside a hello, in front of
    other extensions, not only alone"""
    global _HARVESTED
    if _HARVESTED is None:
        _HARVESTED = _corpus('client')
    if _HARVESTED is None:
        from harness import sweep
        from cryptoparser.tls.extension import TlsExtensionVariantClient
        seen = {}
        for cls, vs in sorted(sweep.library_vectors().items(), key=lambda kv: sweep.qualname(kv[0])):
            name = sweep.qualname(cls)
            if not name.startswith('cryptoparser.tls.extension.TlsExtension') or 'Variant' in name:     # whatever the client variant accepts
                continue
            for v in vs:
                if len(v) >= 4 and int.from_bytes(v[2:4], 'big') == len(v) - 4:
                    try:
                        TlsExtensionVariantClient.parse_exact_size(v)
                    except Exception:  # pylint: disable=broad-except
                        continue
                    seen.setdefault((int.from_bytes(v[:2], 'big'), v[4:].hex()), name)
        _HARVESTED = sorted(seen)
    return _HARVESTED


_HARVESTED_SERVER = None


def harvested_server_extensions():
    """the same for the extensions a server hello may carry (parsed by the server variant)"""
    global _HARVESTED_SERVER
    if _HARVESTED_SERVER is None:
        _HARVESTED_SERVER = _corpus('server')
    if _HARVESTED_SERVER is None:
        from harness import sweep
        from cryptoparser.tls.extension import TlsExtensionVariantServer
        seen = {}
        for cls, vs in sorted(sweep.library_vectors().items(), key=lambda kv: sweep.qualname(kv[0])):
            name = sweep.qualname(cls)
            if not name.startswith('cryptoparser.tls.extension.TlsExtension') or 'Variant' in name:     # whatever the server variant accepts
                continue
            for v in vs:
                if len(v) >= 4 and int.from_bytes(v[2:4], 'big') == len(v) - 4:
                    try:
                        TlsExtensionVariantServer.parse_exact_size(v)
                    except Exception:  # pylint: disable=broad-except
                        continue
                    seen.setdefault((int.from_bytes(v[:2], 'big'), v[4:].hex()), name)
        _HARVESTED_SERVER = sorted(seen)
    return _HARVESTED_SERVER


def client_hello(rng, impl, scsv_at_end=True, no_dup=True, scsv=None):
    """fields of a client hello as the chenc command takes them, plus the list of extenc commands used"""
    suites = rnd_codes(rng, codes_of('TlsCipherSuiteFactory'), 2, rng.choice([1, 2, 5, 17, 40]))
    suites = [c for c in suites if c not in (0x5600, 0x00ff)] or [0xc02f]
    scsv = [c for c in (0x5600, 0x00ff) if rng.random() < 0.4] if scsv is None else list(scsv)
    if scsv_at_end:
        suites = suites + scsv
    else:
        for c in scsv:
            suites.insert(rng.randrange(len(suites) + 1), c)
    comps = rnd_codes(rng, codes_of('TlsCompressionMethodFactory'), 1, rng.choice([1, 1, 2]), unknown=rng.random() < 0.2)
    kinds = []
    if rng.random() < 0.85:
        kinds = rng.sample(['G', 'P', 'V', 'S', 'A', 'N', 'K', 'L', 'R'], rng.randint(1, 6))
    exts = []
    cmds = []
    pending = []
    for k in kinds:
        t, cmd = ext_payload(rng, impl, k)
        cmds.append(cmd)
        pending.append((t, cmd))
    # the payloads are the specification's (the extracted Coq encoder), not what the tree under test composes: a composer that
    # reorders or drops items must not thereby shape the inputs; the implementation is the fallback when the runner is not built
    outs = None
    if pending:
        try:
            from harness import common
            if common.build_runner().ok:
                outs = common.run_model([c for _, c in pending])
        except Exception:  # pylint: disable=broad-except
            outs = None
    for idx, (t, cmd) in enumerate(pending):
        o = outs[idx] if outs is not None else impl.impl_line(cmd)
        if o.startswith('OK '):
            exts.append('%d:%s' % (t, o[3:]))
    for _ in range(rng.choice([0, 0, 1, 2])):   # unknown / GREASE / empty-payload extension types
        t = rng.choice(GREASE2 + [23, 22, 21, 0xfe00 + rng.randrange(200)])
        pl = '' if t in (23, 22) else framegen.rnd_bytes(rng, rng.choice([0, 1, 5])).hex()
        if t == 21:
            pl = '00' * rng.choice([0, 3, 10])
        exts.insert(rng.randrange(len(exts) + 1), '%d:%s' % (t, pl))
    harvested = harvested_client_extensions()
    for _ in range(rng.choice([0, 1, 1, 2]) if harvested else 0):
        t, pl = rng.choice(harvested)
        if all(not e.startswith('%d:' % t) for e in exts):
            exts.insert(rng.randrange(len(exts) + 1), '%d:%s' % (t, pl))
    ver = rng.choice(codes_of('TlsVersionFactory'))
    rnd = framegen.rnd_bytes(rng, 32).hex()
    sid = framegen.rnd_bytes(rng, rng.choice([0, 0, 16, 32])).hex() or '-'
    line = 'chenc %d %s %s %s %s %s' % (ver, rnd, sid, ','.join(map(str, suites)), ','.join(map(str, comps)), ';'.join(exts) or '-')
    return line, cmds
