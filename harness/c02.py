# C02: parsing untrusted bytes fails only with the documented parse errors.
import json
import os
import traceback

from harness import common, sweep

LEVEL = 'proof'


def leak_key(exc):
    """Root cause of a leaked exception: innermost frame inside cryptoparser (file, function) and the exception class."""
    tb = traceback.extract_tb(exc.__traceback__)
    frames = [f for f in tb if os.sep + 'cryptoparser' + os.sep in f.filename]
    if frames:
        f = frames[-1]
        rel = f.filename.split(os.sep + 'cryptoparser' + os.sep, 1)[1]
        where = '%s:%s' % (rel, f.name)
        line = (f.line or '').strip()
        if rel in ('common/parse.py', 'common/base.py') and len(frames) > 1:
            # a leak inside the generic engines is identified together with the class code that called them
            for g in reversed(frames[:-1]):
                grel = g.filename.split(os.sep + 'cryptoparser' + os.sep, 1)[1]
                if grel not in ('common/parse.py',):
                    where += '<-%s:%s' % (grel, g.name)
                    break
    else:
        where, line = 'outside-cryptoparser', ''
    return '%s/%s@%s' % (where, type(exc).__name__, line[:48]), line


def entry_points(cls, buf):
    yield 'parse_immutable', lambda: cls.parse_immutable(buf)
    yield 'parse_exact_size', lambda: cls.parse_exact_size(buf)
    yield 'parse_mutable', lambda: cls.parse_mutable(bytearray(buf))


def leaks(cls, buf, all_entry_points=False):
    from cryptodatahub.common.exception import InvalidValue
    from cryptoparser.common.exception import InvalidType, NotEnoughData, TooMuchData
    for name, fn in entry_points(cls, buf):
        try:
            fn()
        except (InvalidValue, InvalidType, NotEnoughData, TooMuchData):
            pass
        except Exception as e:  # pylint: disable=broad-except
            key, line = leak_key(e)
            yield name, key, line, e
        if not all_entry_points:
            break


def class_sweep(chk, rng, per_vector, all_entry_points=False):
    vectors = sweep.library_vectors()
    evals = 0
    walked = 0
    nested = 0
    kinds = {}
    by_module = {}
    for cls in vectors:
        by_module.setdefault(cls.__module__, []).append(cls)
    for cls in sorted(vectors, key=sweep.qualname):
        name = sweep.qualname(cls)
        siblings = [rng.choice(vectors[c]) for c in by_module[cls.__module__] if c is not cls]
        rng.shuffle(siblings)
        for v in vectors[cls]:
            bufs = [v] + [sweep.mutate(rng, v) for _ in range(per_vector)]
            if rng.random() < 0.3:
                bufs.append(sweep.mutate(rng, sweep.mutate(rng, v)))
            bufs.append(bytes(rng.getrandbits(8) for _ in range(rng.randint(0, 10))))
            bufs += sweep.directed(rng, v, siblings, 5 * per_vector, 48 if per_vector <= 6 else None)
            for b in bufs:
                evals += 1
                for ep, key, line, e in leaks(cls, b, all_entry_points):
                    yield cls, name, b, ep, key, line, e
        # code points: every value of every one of the first octets of a binary vector (type, algorithm, version, format and
        # flag octets sit there), one position at a time - a registered code the class has no branch for is a single value
        walk = [v for v in vectors[cls] if v and not all(32 <= c < 127 or c in (9, 10, 13) for c in v)]
        walk = sorted(walk, key=len)[:1] if per_vector <= 6 else sorted(walk, key=len)[:3]
        for v in walk:
            for i in range(min(len(v), 8 if per_vector <= 6 else 16)):
                for x in range(256):
                    if x == v[i]:
                        continue
                    b = v[:i] + bytes([x]) + v[i + 1:]
                    walked += 1
                    for ep, key, line, e in leaks(cls, b, False):
                        yield cls, name, b, ep, key, line, e
        # structures nested into themselves (a certificate in the place of a certificate's signing key, ...): where a shallow
        # nesting is accepted, a deep one must be refused or parsed, not run into the interpreter's recursion limit
        if name.startswith('cryptoparser.ssh.'):
            for v in sorted((x for x in vectors[cls] if len(x) >= 40), key=len)[:2]:
                for i, shallow in sweep.self_nested(v, 6):
                    try:
                        cls.parse_immutable(shallow)
                    except Exception:  # pylint: disable=broad-except
                        continue
                    nested += 1
                    for _i, deep in sweep.self_nested(v[:i] + v[i:], 300, limit=64):
                        if _i != i:
                            continue
                        for ep, key, line, e in leaks(cls, deep, False):
                            yield cls, name, deep, ep, key, line, e
    chk.coverage['class_sweep'] = {'classes': len(vectors), 'buffers': evals, 'code_point_walk': walked, 'self_nested_structures': nested}


def run(chk):
    rng = chk.rng

    def search(_br):
        for cls, name, b, ep, key, line, e in class_sweep(chk, rng, 4):
            if chk.known(key) is None:
                return [('%s.%s leaks %s at %s' % (name, ep, type(e).__name__, key), {'class': name, 'input': b.hex(), 'entry_point': ep, 'source_line': line}, key, True)]
        return []

    proved = common.proof_stage(chk, 'Props.C02', [], search)
    # correspondence on the malformed stream for everything that has a model: outcome kind and leaked exception class
    from harness import impl, framegen, gen_tables
    lines = []
    nm = 400 if chk.tier == 'quick' else 20000
    F = gen_tables.enum_factories()
    V = gen_tables.enum_vectors()
    O = gen_tables.opaque_enum_factories()
    for _ in range(nm):
        b = framegen.rnd_bytes(rng, rng.choice([0, 1, 2, 3, 4, 5, 6, 8, 12, 20]))
        if len(b) >= 4 and rng.random() < 0.7:
            b = rng.choice([0, 1, 2, 3, 4, 5, 8, 255, 2 ** 31, 2 ** 32 - 1]).to_bytes(4, 'big') + b[4:]
        lines.append('psshmpint ' + b.hex())
        lines.append('pmpint %d %s' % (rng.randint(0, 9), b.hex()))
        lines.append('pnum %s %d %s' % (rng.choice('=<>!'), rng.choice([1, 2, 3, 4, 8]), b.hex()))
        lines.append('pts %d %d %s' % (rng.randint(0, 1), rng.choice([4, 8]), b.hex()))
        t = rng.choice(sorted(F))
        lines.append('penum %s %s' % (t, b.hex()))
        lines.append('pinv %d %s' % (rng.choice([1, 2]), b.hex()))
        v = rng.choice(sorted(V))
        lines.append('pevec %s %s' % (v, b.hex()))
        lines.append('pevec %s %s' % (v, (max(0, len(b) - V[v]['num'] + rng.choice([-1, 0, 0, 0, 1]))).to_bytes(4, 'big')[-V[v]['num']:].hex() + b.hex()))
        o = rng.choice(sorted(O))
        lines.append('popq %s %s' % (o, bytes([len(b) % 256]).hex() + b.hex()))
        lines.append('popq %s %s' % (o, bytes([max(0, len(b) - 1)]).hex() + b[:-1].hex() + bytes([rng.choice([0x80, 0xff, 0xc3, 0x41])]).hex()))
        u = rng.choice(framegen.UNITS)
        lines.append('pframe %s %s' % (u, b.hex()))
    br = common.build_runner()
    impl_out = [impl.impl_line(l) for l in lines]
    if br.ok:
        model_out = common.run_model(lines)

        def kind(o):
            return o.split(' ')[0] + ' ' + (o.split(' ')[1] if o.startswith(('ERR', 'LEAK')) and ' ' in o else '')
        diffs = [(l, m, i) for l, m, i in zip(lines, model_out, impl_out) if kind(m) != kind(i)]
        chk.coverage['disagreements'] = len(diffs)
        for l, m, i in diffs[:3]:
            chk.violation('correspondence (outcome kind / leaked exception class) broke on "%s": model %s, implementation %s' % (l[:160], m[:100], i[:100]),
                          {'cmd': l, 'model': m, 'impl': i, 'correspondence': 'Run.run_line malformed stream'}, None, i.startswith('LEAK'))
    else:
        chk.violation('model runner does not build: %s' % br.failed_file, {'error': br.error}, None, False)
    chk.coverage['traces_validated_against_impl'] = len(lines)
    hist = {}
    for o in impl_out:
        k = o.split(' ')[0] + (' ' + o.split(' ')[1] if o.startswith(('ERR', 'LEAK')) else '')
        hist[k] = hist.get(k, 0) + 1
    chk.coverage['outcome_distribution_modelled_stream'] = hist
    for i in range(0, len(lines), max(1, len(lines) // 8)):
        chk.sample({'cmd': lines[i][:120], 'outcome': impl_out[i][:80]})
    seen = {}
    n = 6 if chk.tier == 'quick' else 120
    for cls, name, b, ep, key, line, e in class_sweep(chk, rng, n, chk.tier != 'quick'):
        if key in seen:
            seen[key][1].add(name)
            continue
        seen[key] = ((name, b, ep, line, e), set([name]))
    for key, ((name, b, ep, line, e), classes) in sorted(seen.items()):
        chk.violation('%s.%s leaks %s (%s) at %s: %s [%d classes affected]' % (name, ep, type(e).__name__, str(e)[:60], key, line[:80], len(classes)),
                      {'class': name, 'input': b.hex(), 'entry_point': ep, 'source_line': line, 'classes': sorted(classes)}, key, True)
    chk.coverage['evaluations'] = chk.coverage.get('class_sweep', {}).get('buffers', 0) + len(lines)
    chk.coverage['distinct_nontrivial'] = len(set(l for l, o in zip(lines, impl_out) if not o.startswith('ERR NotEnoughData')))
    chk.coverage['rule'] = ('malformed stream (random bytes, corrupted length fields, truncations, invalid UTF-8) for every modelled parse '
                            'function (integers, mpints, timestamps, enum factories, fallback classes, enum vectors, ALPN names, framing units): '
                            'outcome kind and leaked exception class compared between the extracted Coq model and the implementation; plus an '
                            'implementation-only sweep over all classes reached by the repository tests: each accepted test vector, several '
                            'mutations of it (bit flips, length-field edits, truncation, splices, duplication), directed malformations (a field emptied, a '
                            'code walked through small values, zeroed words and counts, digit runs beyond the integer conversion limit, line-end '
                            'variants, the accepted input of a sibling class) and random bytes through the parse '
                            'entry points, every exception outside the four documented ones reported by root cause; non-trivial = distinct '
                            'modelled-stream commands that get past the first length check')
    chk.assumptions += ['classes without a Coq model are covered by the implementation-only sweep (exploration), not by a theorem',
                        'a leak is identified by its root cause: innermost cryptoparser frame (plus the calling class code for engine frames) and exception class']
    chk.coverage['leak_root_causes_seen'] = sorted(seen)


def replay(path):
    with open(path) as f:
        r = json.load(f)
    if 'class' not in r:
        print(json.dumps(r, indent=1)[:3000])
        return 1
    mod, q = r['class'].rsplit('.', 1)
    cls = sweep.resolve(mod, q)
    found = list(leaks(cls, bytes.fromhex(r['input']), True))
    for ep, key, line, e in found:
        print('%s leaks %s at %s: %s' % (ep, type(e).__name__, key, line))
    print('replay: property %s' % ('holds on this input' if not found else 'FAILS on this input'))
    return 1 if found else 0
