# C19: parsing work is bounded linearly by the input size (interpreter line events as a function of the input size).
import json
import sys

from harness import common, sweep

LEVEL = 'proof'
K_PER_BYTE = 6000      # global bound: events <= K_PER_BYTE * len + K_CONST (calibrated at ~3x the worst class of the unchanged tree)
K_CONST = 60000
MAX_DEPTH = 60
SLOPE_TOLERANCE = 1.35  # marginal events per byte between 4n and 8n vs between n and 2n


class CapExceeded(Exception):
    pass


def measure(fn, cap):
    """(line events, max call depth, outcome) of fn(); stops at `cap` events."""
    mon = sys.monitoring
    tool = mon.PROFILER_ID
    st = {'events': 0, 'depth': 0, 'max': 0}

    def on_line(code, line):
        st['events'] += 1
        if st['events'] > st.get('next', cap):
            # raise at every further multiple of the cap: the handlers below run a few monitored lines themselves, and code
            # that swallows the exception (callbacks, broad excepts) must not be able to run on unbounded
            st['next'] = st['events'] + cap
            raise CapExceeded()

    def on_start(code, off):
        st['depth'] += 1
        if st['depth'] > st['max']:
            st['max'] = st['depth']

    def on_exit(code, off, val):
        st['depth'] -= 1

    try:
        mon.use_tool_id(tool, 'verif-c19')
    except ValueError:
        mon.free_tool_id(tool)
        mon.use_tool_id(tool, 'verif-c19')
    ev = mon.events
    mon.register_callback(tool, ev.LINE, on_line)
    mon.register_callback(tool, ev.PY_START, on_start)
    mon.register_callback(tool, ev.PY_RETURN, on_exit)
    mon.register_callback(tool, ev.PY_UNWIND, on_exit)
    mon.set_events(tool, ev.LINE | ev.PY_START | ev.PY_RETURN | ev.PY_UNWIND)
    outcome = 'ok'
    try:
        fn()
    except CapExceeded:
        outcome = 'cap'
    except RecursionError:
        outcome = 'RecursionError'
    except BaseException as e:  # pylint: disable=broad-except
        outcome = type(e).__name__
    finally:
        mon.set_events(tool, 0)
        for e in (ev.LINE, ev.PY_START, ev.PY_RETURN, ev.PY_UNWIND):
            mon.register_callback(tool, e, None)
        mon.free_tool_id(tool)
    if st['events'] > cap:
        outcome = 'cap'       # also when the library turned the interruption into one of its own errors
    return st['events'], st['max'], outcome


def shapes():
    """name -> (class, builder(n) -> bytes). Builders use the library's own composers where a length field is involved."""
    from cryptodatahub.tls.algorithm import TlsCipherSuite
    from cryptoparser.tls.subprotocol import TlsCipherSuiteVector, TlsCertificates, TlsCertificate, TlsHandshakeClientHello
    from cryptoparser.tls.extension import TlsExtensionsClient, TlsExtensionUnparsed
    from cryptoparser.tls.grease import TlsInvalidTypeTwoByte
    from cryptoparser.ssh.subprotocol import SshKexAlgorithmVector
    from cryptoparser.httpx.header import HttpHeaderFields, HttpHeaderFieldValueSTS, HttpHeaderFieldValueContentSecurityPolicy
    from cryptoparser.dnsrec.record import DnsNameUncompressed, DnsRecordTxt
    from cryptoparser.dnsrec.txt import DnsRecordTxtValueSpf, DnsRecordTxtValueDmarc
    from cryptoparser.ssh.key import SshX509CertificateChain
    suites = list(TlsCipherSuite)

    def name_list(names):
        body = b','.join(names)
        return len(body).to_bytes(4, 'big') + body

    res = {
        'header-block-many-fields': (HttpHeaderFields, lambda n: b''.join(b'X-H%d: v%d\r\n' % (i, i) for i in range(n)) + b'\r\n'),
        'header-block-known-fields': (HttpHeaderFields, lambda n: b''.join(b'Age: %d\r\nServer: s%d\r\n' % (i, i) for i in range(n // 2)) + b'\r\n'),
        # rejected inputs must be linear too: line ends that are not CRLF, with field names the library knows and with others
        'header-block-lf-only-known': (HttpHeaderFields, lambda n: b''.join(b'Server: s%d\n' % i for i in range(n))),
        'header-block-lf-only-unknown': (HttpHeaderFields, lambda n: b''.join(b'X-H%d: v\n' % i for i in range(n))),
        'header-block-cr-only-known': (HttpHeaderFields, lambda n: b''.join(b'Age: %d\r' % i for i in range(n))),
        'header-block-blank-before-names': (HttpHeaderFields, lambda n: b''.join(b' Server: s%d\r\n' % i for i in range(n)) + b'\r\n'),
        'header-no-separator': (HttpHeaderFields, lambda n: b'A' * (8 * n) + b'\r\n\r\n'),
        'header-one-huge-value': (HttpHeaderFields, lambda n: b'X-Big: ' + b'v' * (8 * n) + b'\r\n\r\n'),
        'sts-many-unknown-directives': (HttpHeaderFieldValueSTS, lambda n: b'max-age=1' + b''.join(b'; a%d=b' % i for i in range(n))),
        'sts-repeated-separators': (HttpHeaderFieldValueSTS, lambda n: b'max-age=1' + b';' * (4 * n)),
        'csp-many-sources': (HttpHeaderFieldValueContentSecurityPolicy, lambda n: b"default-src 'self'" + b''.join(b' https://h%d.example' % i for i in range(n))),
        'ssh-name-list-many': (SshKexAlgorithmVector, lambda n: name_list([b'alg%d@example.com' % i for i in range(n)])),
        'ssh-name-list-one-huge': (SshKexAlgorithmVector, lambda n: name_list([b'x' * (8 * n)])),
        'ssh-name-list-commas': (SshKexAlgorithmVector, lambda n: name_list([b''] * (4 * n))),
        'cipher-suites-known': (TlsCipherSuiteVector, lambda n: bytes(TlsCipherSuiteVector([suites[(i * 7) % 16] for i in range(n)]).compose())),
        'cipher-suites-unknown': (TlsCipherSuiteVector, lambda n: bytes(TlsCipherSuiteVector([TlsInvalidTypeTwoByte(0xfa00 + i % 100) for i in range(n)]).compose())),
        'extensions-unknown': (TlsExtensionsClient, lambda n: (4 * n).to_bytes(2, 'big') + b''.join((0xfa00 + i % 100).to_bytes(2, 'big') + b'\x00\x00' for i in range(n))),
        'certificates-many': (TlsCertificates, lambda n: bytes(TlsCertificates([TlsCertificate(b'c' * 5) for _ in range(n)]).compose())),
        'dns-name-many-labels': (DnsNameUncompressed, lambda n: b''.join(b'\x01a' for _ in range(n)) + b'\x00'),
        'dns-txt-many-strings': (DnsRecordTxt, lambda n: b''.join(b'\x05hello' for _ in range(n))),
        'spf-many-terms': (DnsRecordTxtValueSpf, lambda n: b'v=spf1' + b''.join(b' a:h%d.example' % i for i in range(n)) + b' -all'),
        'dmarc-long-rua': (DnsRecordTxtValueDmarc, lambda n: b'v=DMARC1; p=none; rua=' + b','.join(b'mailto:a%d@example.com' % i for i in range(n))),
        'x509-chain-huge-count-no-data': (SshX509CertificateChain, lambda n: b'\x00\x00\x00\x0ex509v3-ssh-rsa' + b'\xff\xff\xff\xff' + b'\x00' * n),
    }
    # extensions whose own length is small while an inner length field spans the rest of the block: an extension parser that looks
    # beyond its extension would do work proportional to the block for every one of them
    def overlapping(ext_type, payload):
        def build(n):
            one = ext_type.to_bytes(2, 'big') + len(payload(0)).to_bytes(2, 'big')
            k = max(1, n)
            total = k * (len(one) + len(payload(0)))
            body = b''.join(one + payload(total // 2) for _ in range(k))
            return len(body).to_bytes(2, 'big') + body
        return build
    res['extensions-overlapping-server-name'] = (TlsExtensionsClient, overlapping(0, lambda ll: b'\x80\x80\x00' + (ll % 65536).to_bytes(2, 'big')))
    for t, nm in ((10, 'groups'), (13, 'signature-algorithms'), (16, 'alpn'), (51, 'key-share')):
        res['extensions-overlapping-%s' % nm] = (TlsExtensionsClient, overlapping(t, lambda ll: (ll % 65536 & 0xfffe).to_bytes(2, 'big')))
    # a client hello whose suite list holds many ordinary suites followed by as many repeated signalling suites, and one whose
    # list is signalling suites only in front of one ordinary suite
    def hello_with_suites(codes):
        body = b'\x03\x03' + bytes(32) + b'\x00' + (2 * len(codes)).to_bytes(2, 'big') + b''.join(c.to_bytes(2, 'big') for c in codes) + b'\x01\x00'
        return b'\x01' + len(body).to_bytes(3, 'big') + body
    known = [int(m.value.code) for m in suites if int(m.value.code) not in (0x5600, 0x00ff)][:64]
    res['client-hello-repeated-signalling-suites'] = (TlsHandshakeClientHello, lambda n: hello_with_suites([known[i % len(known)] for i in range(n // 2)] + [0x5600, 0x00ff] * (n // 4)))
    res['client-hello-signalling-suites-first'] = (TlsHandshakeClientHello, lambda n: hello_with_suites([0x00ff, 0x5600] * (n // 2) + [known[0]]))
    # a certificate in the place of the signing key of a certificate, n / 8 times over
    from cryptoparser.ssh.key import SshHostPublicKeyVariant
    cert_vectors = sorted((sweep.qualname(c), vs[0]) for c, vs in sweep.library_vectors().items() if 'SshHostCertificateV0' in sweep.qualname(c) and vs)
    for cname, cert in cert_vectors:
        spots = [i for i, _b in sweep.self_nested(cert, 1, limit=64)]

        def nested(n, cert=cert, spots=spots):
            best = None
            for i in spots:      # the spot that holds the signing key: the one whose shallow nesting is accepted (or the last)
                for j, b in sweep.self_nested(cert, max(1, n // 8), limit=64):
                    if j == i:
                        best = b
                        try:
                            SshHostPublicKeyVariant.parse_immutable([x for k, x in sweep.self_nested(cert, 2, limit=64) if k == i][0])
                            return b
                        except Exception:  # pylint: disable=broad-except
                            pass
            return best or cert
        res['ssh-certificate-nested-in-signing-key-%s' % cname.rsplit('.', 1)[1]] = (SshHostPublicKeyVariant, nested)
    return res


def run(chk):
    rng = chk.rng
    proved = common.proof_stage(chk, 'Props.C19', [], None)
    base = 40 if chk.tier == 'quick' else 400
    sizes = [base, 2 * base, 4 * base, 8 * base]
    table = {}
    evals = 0
    for name, (cls, build) in sorted(shapes().items()):
        row = []
        for n in sizes:
            try:
                buf = build(n)
            except Exception as e:  # pylint: disable=broad-except
                row = None
                table[name] = 'builder failed: %s' % type(e).__name__
                break
            cap = K_PER_BYTE * len(buf) + K_CONST
            ev, depth, outcome = measure(lambda: cls.parse_immutable(buf), cap)
            evals += 1
            row.append((len(buf), ev, depth, outcome))
            if outcome == 'cap':
                chk.violation('%s on shape %s: more than %d line events for %d bytes (bound %d*len+%d); work is not linear in the bytes present' % (
                    sweep.qualname(cls), name, cap, len(buf), K_PER_BYTE, K_CONST),
                    {'class': sweep.qualname(cls), 'shape': name, 'n': n, 'input_len': len(buf), 'predicate': 'cap'}, '%s/cap' % name, True)
                break
            if depth > MAX_DEPTH or outcome == 'RecursionError':
                chk.violation('%s on shape %s: call depth %d for %d bytes' % (sweep.qualname(cls), name, depth, len(buf)),
                              {'class': sweep.qualname(cls), 'shape': name, 'n': n, 'predicate': 'depth'}, '%s/depth' % name, True)
                break
        if not row:
            continue
        table[name] = row
        if len(row) == 4:
            (l1, e1, d1, _), (l2, e2, d2, _), (l4, e4, d4, _), (l8, e8, d8, _) = row
            low = (e2 - e1) / max(1, l2 - l1)
            high = (e8 - e4) / max(1, l8 - l4)
            if high > SLOPE_TOLERANCE * max(low, 1.0) + 0.5:
                chk.violation('%s on shape %s: %.1f line events per additional byte between %d and %d bytes but %.1f between %d and %d (super-linear)' % (
                    sweep.qualname(cls), name, low, l1, l2, high, l4, l8),
                    {'class': sweep.qualname(cls), 'shape': name, 'sizes': sizes, 'measurements': row, 'predicate': 'slope'}, '%s/slope' % name, True)
            if d8 > d1:
                chk.violation('%s on shape %s: call depth grows with the input (%d -> %d)' % (sweep.qualname(cls), name, d1, d8),
                              {'class': sweep.qualname(cls), 'shape': name, 'predicate': 'depth-grows'}, '%s/depth-grows' % name, True)
    # fuzz stream: the global linear bound and the depth bound on every class reached by the repository tests
    vectors = sweep.library_vectors()
    worst = (0, None)
    nmut = 1 if chk.tier == 'quick' else 12
    for cls in sorted(vectors, key=sweep.qualname):
        for v in vectors[cls]:
            for b in [v] + [sweep.mutate(rng, v) for _ in range(nmut)] + sweep.inflate_counts(rng, v, 10 if chk.tier == 'quick' else 400):
                cap = K_PER_BYTE * len(b) + K_CONST
                ev, depth, outcome = measure(lambda: cls.parse_immutable(b), cap)
                evals += 1
                ratio = ev / (len(b) + 10)
                if ratio > worst[0]:
                    worst = (ratio, sweep.qualname(cls))
                if outcome == 'cap' or depth > MAX_DEPTH or outcome == 'RecursionError':
                    chk.violation('%s: %d line events / depth %d for %d bytes (%s)' % (sweep.qualname(cls), ev, depth, len(b), outcome),
                                  {'class': sweep.qualname(cls), 'input': b.hex(), 'predicate': 'fuzz-bound'}, '%s/fuzz-bound' % sweep.qualname(cls), True)
    chk.coverage['count_inflation'] = 'every small 1-4 byte number of every vector set to its maximum, data kept / cut / removed (sampled in the quick tier)'
    chk.coverage['evaluations'] = evals
    chk.coverage['distinct_nontrivial'] = len([r for r in table.values() if isinstance(r, list)])
    chk.coverage['shape_measurements'] = {k: (v if isinstance(v, str) else [{'len': a, 'events': b, 'depth': c, 'outcome': d} for a, b, c, d in v]) for k, v in table.items()}
    chk.coverage['worst_events_per_byte_on_fuzz_stream'] = {'ratio': round(worst[0], 1), 'class': worst[1]}
    chk.coverage['calibrated_constants'] = {'K_PER_BYTE': K_PER_BYTE, 'K_CONST': K_CONST, 'MAX_DEPTH': MAX_DEPTH, 'SLOPE_TOLERANCE': SLOPE_TOLERANCE}
    chk.coverage['rule'] = ('sys.monitoring LINE-event counts and maximum call depth of parse_immutable on %d scalable shapes (many header fields, '
                            'no separator, one huge value, repeated separators, many list items, unknown items, many labels, a maximal declared '
                            'count with little data) at sizes n, 2n, 4n, 8n: marginal events per byte must not grow by more than %.0f%%, depth '
                            'must not grow; on the vectors of the repository tests and mutations of them a global bound events <= %d*len+%d '
                            'and depth <= %d; non-trivial = shapes measured at all four sizes' % (len(table), (SLOPE_TOLERANCE - 1) * 100,
                                                                                                K_PER_BYTE, K_CONST, MAX_DEPTH))
    for k in sorted(table)[:8]:
        chk.sample({'shape': k, 'measurements': chk.coverage['shape_measurements'][k]})
    chk.assumptions += ['the Coq cost semantics counts engine primitives, table comparisons and loop iterations of the modelled vector parsers; that one '
                        'model step corresponds to a bounded number of interpreter line events is measured here, not proved',
                        'work inside C primitives (slicing, bytes.endswith, struct) is not counted by the property metric']
    chk.level = 'proof'


def replay(path):
    with open(path) as f:
        r = json.load(f)
    if 'shape' in r:
        cls, build = shapes()[r['shape']]
        rows = []
        for n in r.get('sizes', [r.get('n', 40)]):
            buf = build(n)
            rows.append((len(buf),) + measure(lambda: cls.parse_immutable(buf), K_PER_BYTE * len(buf) + K_CONST))
        print(rows)
        ok = all(x[3] != 'cap' for x in rows)
        if len(rows) == 4:
            low = (rows[1][1] - rows[0][1]) / max(1, rows[1][0] - rows[0][0])
            high = (rows[3][1] - rows[2][1]) / max(1, rows[3][0] - rows[2][0])
            ok = ok and high <= SLOPE_TOLERANCE * max(low, 1.0) + 0.5
    elif 'input' in r:
        mod, q = r['class'].rsplit('.', 1)
        cls = sweep.resolve(mod, q)
        b = bytes.fromhex(r['input'])
        ev, depth, outcome = measure(lambda: cls.parse_immutable(b), K_PER_BYTE * len(b) + K_CONST)
        print(ev, depth, outcome)
        ok = outcome != 'cap' and depth <= MAX_DEPTH
    else:
        print(json.dumps(r, indent=1)[:3000])
        ok = False
    print('replay: property %s' % ('holds on this input' if ok else 'FAILS on this input'))
    return 0 if ok else 1
