# C10: every wire code point is decoded faithfully or preserved verbatim.
import json

from harness import common

LEVEL = 'proof'
PROTOCOL_SHARED = {('SshMessageCode', 'DH_GEX_GROUP')}
GREASE2 = [0x0a0a + 0x1010 * i for i in range(16)]
GREASE1 = [0x0b, 0x2a, 0x49, 0x68, 0x87, 0xa6, 0xc5, 0xe4]


def alias_failures():
    """Distinct names sharing a code (over __members__), for every factory enum and every local IntEnum."""
    from harness import gen_tables
    tables = [(n, [(k, int(v.value.code)) for k, v in e.__members__.items()]) for n, (c, w, e) in gen_tables.enum_factories().items()]
    tables += gen_tables.local_int_enums()
    for name, members in tables:
        seen = {}
        for k, v in members:
            if (name, k) in PROTOCOL_SHARED:
                continue
            if v in seen:
                yield name, seen[v], k, v
            seen.setdefault(v, k)


def gen_lines(rng, tier):
    from harness import gen_tables
    F = gen_tables.enum_factories()
    V = gen_tables.enum_vectors()
    O = gen_tables.opaque_enum_factories()
    lines = []
    n_rand = 300 if tier == 'quick' else 3000
    for t, (c, w, e) in F.items():
        codes = [int(m.value.code) for m in e]
        for i in range(len(codes) + 1):
            lines.append('cenum %s %d' % (t, i))
        if w <= 2 and (tier == 'thorough' or w == 1):
            space = list(range(256 ** w))
        else:
            space = set(codes + [0, 1, 256 ** w - 1, 256 ** w - 2])
            space.update(x % (256 ** w) for x in GREASE2 + GREASE1)
            # near misses of the GREASE pattern (both low nibbles 0xA, bytes different; one bit / one byte off)
            space.update(((a & 0xff00) | (b & 0xff)) % (256 ** w) for a in GREASE2 for b in GREASE2[::5])
            space.update((x ^ d) % (256 ** w) for x in GREASE2 for d in (0x0001, 0x0100, 0x0010, 0x1000, 0x00ff, 0xff00))
            space.update(GREASE1)    # one-byte GREASE values are ordinary codes in a two-byte field
            space.update(x + d for x in codes for d in (-1, 1) if 0 <= x + d < 256 ** w)
            space.update(rng.randrange(256 ** w) for _ in range(n_rand))
            space = sorted(space)
        for code in space:
            h = code.to_bytes(w, 'big').hex()
            lines.append('penum %s %s' % (t, h))
        for code in codes[:40]:
            h = code.to_bytes(w, 'big').hex()
            lines.append('penum %s %s' % (t, h[:-2]))
            lines.append('penum %s %s%02x' % (t, h, rng.getrandbits(8)))
    for g in (1, 2):
        near = [((a & 0xff00) | (b & 0xff)) for a in GREASE2 for b in GREASE2[::3]] + [x ^ d for x in GREASE2 for d in (1, 0x100, 0x10, 0x1000)] + list(GREASE1)
        for code in (GREASE1 if g == 1 else GREASE2 + near) + [rng.randrange(256 ** g) for _ in range(100)]:
            lines.append('pinv %d %s' % (g, code.to_bytes(g, 'big').hex()))
        lines.append('pinv %d %s' % (g, ''))
        lines.append('pinv 2 0a')
    for v, d in V.items():
        codes = [int(m.value.code) for m in F[d['factory']][2]]
        w = d['w']
        for _ in range(n_rand):
            k = rng.choice([0, 1, 1, 2, 3, 5, 8, 40])
            body = b''.join((rng.choice(codes) if rng.random() < 0.6 else
                             rng.choice(GREASE2 + [rng.randrange(65536)]) % (256 ** w)).to_bytes(w, 'big') for _ in range(k))
            r = rng.random()
            if r < 0.1:
                body += b'\x01'
            L = len(body) if rng.random() < 0.85 else rng.choice([0, 1, len(body) + 1, max(0, len(body) - 1), 255])
            buf = (L % 256 ** d['num']).to_bytes(d['num'], 'big') + body + bytes(rng.getrandbits(8) for _ in range(rng.choice([0, 0, 1, 3])))
            if rng.random() < 0.08:
                buf = buf[:rng.randint(0, len(buf))]
            lines.append('pevec %s %s' % (v, buf.hex()))
            its = []
            for _ in range(rng.choice([0, 1, 2, 3, 6])):
                its.append(rng.choice(['K%d' % rng.randrange(len(codes)), 'U%d' % rng.randrange(256 ** w),
                                       'G%d' % (rng.choice(GREASE2) % (256 ** w) if w == 2 else rng.choice(GREASE1))]))
            lines.append('cevec %s %s' % (v, ','.join(its) or '-'))
        # at the bounds
        for n_items in {d['min'] // w, max(0, d['min'] // w - 1), min(d['max'] // w, 300), }:
            lines.append('cevec %s %s' % (v, ','.join('K%d' % rng.randrange(len(codes)) for _ in range(n_items)) or '-'))
    for t, d in O.items():
        members = list(d['enum'])
        for i in range(len(members) + 1):
            lines.append('copq %s %d' % (t, i))
        for m in members:
            b = m.value.code.encode(d['encoding'])
            lines.append('popq %s %s' % (t, bytes([len(b)]).hex() + b.hex()))
            lines.append('popq %s %s' % (t, bytes([len(b)]).hex() + b.hex() + '00'))
            lines.append('popq %s %s' % (t, bytes([len(b)]).hex() + b.hex()[:-2]))
            lines.append('popq %s %s' % (t, bytes([len(b)]).hex() + b.upper().hex()))
        for _ in range(n_rand):
            b = bytes(rng.getrandbits(8) for _ in range(rng.randint(0, 6)))
            if rng.random() < 0.5:
                b = bytes(rng.choice(b'abch/1.2-') for _ in range(rng.randint(0, 8)))
            lines.append('popq %s %s' % (t, bytes([len(b)]).hex() + b.hex()))
        lines.append('popq %s 00' % t)
        lines.append('popq %s ' % t)
        lines.append('popq %s 02c3a9' % t)
        lines.append('popq %s 02c328' % t)
    return lines


def predicate(impl, line, out):
    """C10 on one implementation outcome, without the model."""
    from harness import gen_tables
    ws = line.split(' ')
    if ws[0] == 'penum':
        c, w, e = gen_tables.enum_factories()[ws[1]]
        b = bytes.fromhex(ws[2])
        members = list(e)
        codes = [int(m.value.code) for m in members]
        if len(b) < w:
            return None if out == 'ERR NotEnoughData %d' % (w - len(b)) else 'short buffer %s gave %s' % (ws[2], out)
        code = int.from_bytes(b[:w], 'big')
        if out.startswith('OK '):
            idx = int(out.split(' ')[1])
            if codes[idx] != code:
                return '%s: code 0x%x decoded to member %s which carries code 0x%x' % (ws[1], code, members[idx].name, codes[idx])
            back = impl.impl_line('cenum %s %d' % (ws[1], idx))
            if back != 'OK ' + b[:w].hex():
                return '%s: member %s re-encodes to %s, was %s' % (ws[1], members[idx].name, back, b[:w].hex())
        elif out == 'ERR InvalidValue':
            if code in codes:
                return '%s: known code 0x%x rejected' % (ws[1], code)
        else:
            return '%s: code 0x%x gave %s (neither a member nor InvalidValue)' % (ws[1], code, out)
    if ws[0] == 'pevec' and out.startswith('OK '):
        items, n = out[3:].rsplit(' n=', 1)
        back = impl.impl_line('cevec %s %s' % (ws[1], items.strip('[]') or '-'))
        if back != 'OK ' + ws[2][:2 * int(n)]:
            return '%s: accepted %s (n=%s) re-composes to %s' % (ws[1], ws[2], n, back)
    if ws[0] == 'pinv' and out.startswith('OK '):
        g = int(ws[1])
        if int(out[3:].split(' ')[0][1:]) != int.from_bytes(bytes.fromhex(ws[2])[:g], 'big'):
            return 'fallback class changed code point %s to %s' % (ws[2], out)
    return None


def run(chk):
    from harness import impl

    lines = gen_lines(chk.rng, chk.tier)

    def impl_search(_br=None):
        found = []
        for name, a, b, v in alias_failures():
            found.append(('%s.%s and %s.%s share the code 0x%x: %s can neither be parsed nor composed' % (name, a, name, b, v, b),
                          {'kind': 'alias', 'enum': name, 'members': [a, b], 'code': v}, None, True))
        if not found:
            for l in lines:
                o = impl.impl_line(l)
                f = predicate(impl, l, o)
                if f:
                    found.append((f, {'cmd': l, 'impl': o}, None, True))
                    break
        return found

    proved = common.proof_stage(chk, 'Props.C10', [], impl_search)
    for what, replay, key, found in [x for x in impl_search() if x[1].get('kind') == 'alias']:
        chk.violation(what, replay, key, found)
    br = common.build_runner()
    impl_out = [impl.impl_line(l) for l in lines]
    nontrivial = set()
    nv = 0
    for l, o in zip(lines, impl_out):
        f = predicate(impl, l, o)
        if f and nv < 5:
            nv += 1
            chk.violation(f, {'cmd': l, 'impl': o}, None, True)
        if o.startswith('OK'):
            nontrivial.add(l)
    if br.ok:
        model_out = common.run_model(lines)
        diffs = [(l, m, i) for l, m, i in zip(lines, model_out, impl_out) if m != i]
        chk.coverage['disagreements'] = len(diffs)
        for l, m, i in diffs[:5]:
            key = None
            if l.startswith('popq') and i == 'LEAK UnicodeError' and m == i:
                continue
            if not chk.violations:
                f = predicate(impl, l, i)
                chk.violation('correspondence Base/Enum.v vs common/base.py broke on "%s": model %s, implementation %s%s' % (
                    l[:200], m, i, ('; ' + f) if f else ''), {'cmd': l, 'model': m, 'impl': i, 'correspondence': 'Run.run_line'},
                    key, bool(f))
        # code lists inside messages: client hellos encoded by the specification with known, unknown and GREASE codes in the
        # cipher suite, compression method, extension type and named group lists; the codes recovered by the implementation's
        # parser must be the encoded ones, in order, none dropped (the signalling suites excepted, which become flags)
        from harness import tlsgen
        hello = []
        for _ in range(60 if chk.tier == 'quick' else 1500):
            l, _cmds = tlsgen.client_hello(chk.rng, impl, scsv_at_end=chk.rng.random() < 0.5)
            hello.append(l)
        enc = common.run_model(hello)
        dec = ['chdec ' + m[3:] for m in enc if m.startswith('OK ')]
        for l, m in zip(dec, common.run_model(dec)):
            i = impl.impl_line(l)
            if m != i and nv < 8:
                nv += 1
                chk.violation('the code lists recovered from a client hello differ from the encoded ones: implementation %s, specification %s' % (i[:160], m[:160]),
                              {'cmd': l, 'impl': i, 'spec': m, 'kind': 'hello'}, None, True)
        chk.coverage['hello_code_lists'] = len(dec)
        # single-valued code fields: a server hello and a hello retry request carrying every compression method code of the
        # table and suites of the table; the message the implementation composes is the specification's, and the implementation
        # parses it back to the same members (the encoder command compares field by field: RoundTripError otherwise)
        single = []
        suites = tlsgen.codes_of('TlsCipherSuiteFactory')
        for comp in tlsgen.codes_of('TlsCompressionMethodFactory'):
            for suite in chk.rng.sample(suites, 3 if chk.tier == 'quick' else 40):
                for cmd in ('shenc', 'hrrenc'):
                    single.append('%s %d %s %s %d %d -' % (cmd, chk.rng.choice([0x0301, 0x0303, 0x0304]), '%064x' % chk.rng.getrandbits(256),
                                                         chk.rng.choice(['-', '%064x' % chk.rng.getrandbits(256)]), suite, comp))
        for l, m in zip(single, common.run_model(single)):
            i = impl.impl_line(l)
            if m != i and nv < 10:
                nv += 1
                chk.violation('a hello carrying a known compression method / cipher suite code is not composed as specified or not parsed back to the '
                              'same members: "%s" implementation %s, specification %s' % (l[:100], i[:80], m[:80]), {'cmd': l, 'impl': i, 'spec': m, 'kind': 'hello-single'}, None, True)
        chk.coverage['hello_single_codes'] = len(single)
    else:
        chk.violation('model runner does not build: %s' % br.failed_file, {'error': br.error}, None, False)
    # SSH algorithm names: name-lists mixing names of the table with unknown names at every position; each name comes back as the
    # member carrying it or, verbatim, as itself, in order, and the list re-encodes to the same bytes
    from cryptoparser.ssh import subprotocol as sp
    nn = 0
    for vcls in (sp.SshKexAlgorithmVector, sp.SshHostKeyAlgorithmVector, sp.SshEncryptionAlgorithmVector, sp.SshMacAlgorithmVector, sp.SshCompressionAlgorithmVector):
        known = [m.value.code for m in vcls.get_param().item_class]
        pool = (known or ['none'])[:40]
        for _ in range(12 if chk.tier == 'quick' else 300):
            names = []
            for _k in range(chk.rng.randint(1, 6)):
                names.append(chk.rng.choice(pool) if chk.rng.random() < 0.55 else 'x-%d@example.org' % chk.rng.randrange(1000))
            body = ','.join(names).encode('ascii')
            wire = len(body).to_bytes(4, 'big') + body
            nn += 1
            try:
                v = vcls.parse_exact_size(wire)
                got = [x if isinstance(x, str) else x.value.code for x in v]
                back = bytes(v.compose())
            except Exception as e:  # pylint: disable=broad-except
                got, back = type(e).__name__, None
            if (got != names or back != wire) and nv < 14:
                nv += 1
                chk.violation('%s: the name-list %s decodes to %s and re-encodes to %r' % (vcls.__name__, ','.join(names), got if isinstance(got, str) else ','.join(got), back),
                              {'class': vcls.__name__, 'names': names, 'decoded': got, 'kind': 'ssh-names'}, None, True)
    chk.coverage['ssh_name_lists'] = nn
    # string-coded curve identifiers of ECDSA host keys (RFC 5656 6.1 / 10.1): every identifier of the table decodes to its member and
    # the key re-encodes under the same identifier
    try:
        from cryptodatahub.ssh.algorithm import SshEllipticCurveIdentifier
        from cryptoparser.ssh.key import SshHostKeyECDSA
        def s4(b):
            return len(b).to_bytes(4, 'big') + b
        ncurve = 0
        for m in SshEllipticCurveIdentifier:
            code = m.value.code.encode('ascii')
            size = (m.value.named_group.value.size + 7) // 8
            point = b'\x04' + bytes([0x11] * size) + bytes([0x22] * size)
            # the library has host key algorithm names for the three NIST curves only and does not tie the name to the identifier
            alg = b'ecdsa-sha2-' + code if code.startswith(b'nistp') else b'ecdsa-sha2-nistp256'
            blob = s4(alg) + s4(code) + s4(point)
            try:
                key = SshHostKeyECDSA.parse_exact_size(blob)
            except Exception:  # pylint: disable=broad-except
                continue        # not a host key algorithm of the library, or a point asn1crypto cannot hold
            ncurve += 1
            back = bytes(key.compose())
            if back != blob and nv < 16:
                nv += 1
                got = back[4 + len(alg) + 4:][:40]
                chk.violation('an ECDSA host key under the curve identifier %s re-encodes under another identifier (%r...)' % (m.value.code, got),
                              {'identifier': m.value.code, 'blob': blob.hex(), 'composed': back.hex(), 'kind': 'curve-identifier'}, None, True)
        chk.coverage['curve_identifiers'] = ncurve
    except ImportError:
        pass
    chk.coverage['evaluations'] = len(lines)
    chk.coverage['distinct_nontrivial'] = len(nontrivial)
    chk.coverage['traces_validated_against_impl'] = len(lines)
    chk.coverage['exhaustive'] = chk.tier == 'thorough'
    chk.coverage['rule'] = ('per factory: every member, GREASE values, neighbours of members, boundaries and random codes (quick; all '
                            '2^8 values of 1-byte factories) or the whole 2^8 / 2^16 code space (thorough), each parsed alone, truncated '
                            'and with a suffix; per enum vector: structured bodies of known/unknown/GREASE codes with correct and '
                            'corrupted length prefixes, truncations, suffixes, and constructed item lists at the size bounds; ALPN/NPN '
                            'names incl. case variants and invalid UTF-8; model (extracted Coq) vs implementation plus an independent '
                            'predicate; non-trivial = distinct commands accepted by the implementation')
    hist = {}
    for l in lines:
        hist[l.split(' ')[0]] = hist.get(l.split(' ')[0], 0) + 1
    chk.coverage['input_distribution'] = hist
    for i in range(0, len(lines), max(1, len(lines) // 10)):
        chk.sample({'cmd': lines[i][:120], 'outcome': impl_out[i][:120]})
    chk.assumptions += ['enum members are modelled by their index in list(enum_class); the tables are regenerated from the live library on every run',
                        'string-coded enumerations (SSH names, text enums) are covered here only by the NoDup side condition; their parsers are modelled under C07/C16/C18']


def replay(path):
    from harness import impl
    with open(path) as f:
        r = json.load(f)
    if r.get('kind') == 'alias':
        hits = [x for x in alias_failures() if x[0] == r['enum'] and x[3] == r['code']]
        print('aliases now: %s' % hits)
        ok = not hits
    elif r.get('kind') == 'curve-identifier':
        from cryptoparser.ssh.key import SshHostKeyECDSA
        blob = bytes.fromhex(r['blob'])
        back = bytes(SshHostKeyECDSA.parse_exact_size(blob).compose())
        print('%s\n re-encoded: %s' % (blob.hex()[:120], back.hex()[:120]))
        ok = back == blob
    elif r.get('kind') == 'ssh-names':
        from cryptoparser.ssh import subprotocol as sp
        vcls = getattr(sp, r['class'])
        body = ','.join(r['names']).encode('ascii')
        wire = len(body).to_bytes(4, 'big') + body
        try:
            v = vcls.parse_exact_size(wire)
            got = [x if isinstance(x, str) else x.value.code for x in v]
            back = bytes(v.compose())
        except Exception as e:  # pylint: disable=broad-except
            got, back = type(e).__name__, None
        print('%s\n decoded:    %s\n re-encoded: %r' % (','.join(r['names']), got, back))
        ok = got == r['names'] and back == wire
    elif r.get('kind') in ('hello', 'hello-single'):
        o = impl.impl_line(r['cmd'])
        spec = common.run_model([r['cmd']])[0] if common.build_runner().ok else r.get('spec')
        print('%s\n implementation: %s\n specification:  %s' % (r['cmd'][:120], o[:300], spec[:300]))
        ok = o == spec
    elif 'cmd' in r:
        o = impl.impl_line(r['cmd'])
        f = predicate(impl, r['cmd'], o)
        print('%s -> %s' % (r['cmd'], o))
        if f:
            print(f)
        ok = not f
    else:
        print(json.dumps(r, indent=1)[:3000])
        ok = False
    print('replay: property %s' % ('holds on this input' if ok else 'FAILS on this input'))
    return 0 if ok else 1
