# C01: compose then parse returns the same message and consumes every byte.
import json

from harness import common, framegen, rt, sweep, gen_tables

LEVEL = 'proof'
C01_PREDICATES = ('compose-of-parsed-fails', 'composed-not-accepted', 'composed-not-consumed', 'roundtrip-unequal')


def family(name):
    short = name.rsplit('.', 1)[1]
    if name.startswith('cryptoparser.httpx.header.HttpHeaderField') and 'Value' not in short and short != 'HttpHeaderFields':
        return 'cryptoparser.httpx.header.HttpHeaderField*'
    if name.startswith('cryptoparser.httpx.header.ContentSecurityPolicy'):
        return 'cryptoparser.httpx.header.ContentSecurityPolicy*'
    return name


def constructed_lines(rng, impl, tier):
    """compose commands for objects of the modelled classes, each followed by the parse of what the implementation
    composed (alone and with a suffix)"""
    n = 150 if tier == 'quick' else 4000
    F = gen_tables.enum_factories()
    V = gen_tables.enum_vectors()
    O = gen_tables.opaque_enum_factories()
    pairs = []   # (compose command, parse command prefix)
    for k in range(1, 10):      # SSH mpints at the byte boundaries of either sign
        for z in (256 ** k - 1, 256 ** k, 256 ** k // 2, 256 ** k // 2 - 1, 256 ** k // 2 + 1, 256 ** k - 256 ** (k - 1) + 1, 256 ** k - 255):
            for sgn in (1, -1):
                pairs.append(('csshmpint %d' % (sgn * z), 'psshmpint'))
    for _ in range(n):
        z = rng.getrandbits(rng.choice([1, 7, 8, 9, 16, 24, 31, 32, 33, 63, 64, 100, 521, 1024]))
        w = rng.choice([1, 2, 3, 4, 8])
        o = rng.choice('=<>!')
        pairs.append(('cnum %s %d %d' % (o, w, z % 256 ** w), 'pnum %s %d' % (o, w)))
        pairs.append(('csshmpint %d' % (z * rng.choice([1, 1, -1])), 'psshmpint'))
        L = (z.bit_length() + 7) // 8 + rng.choice([0, 0, 1, 3])
        pairs.append(('cmpint %d %d' % (L, z), 'pmpint %d' % L))
        t = rng.choice(sorted(F))
        pairs.append(('cenum %s %d' % (t, rng.randrange(len(F[t][2]))), 'penum %s' % t))
        v = rng.choice(sorted(V))
        d = V[v]
        codes = [int(m.value.code) for m in F[d['factory']][2]]
        its = []
        for _ in range(rng.choice([1, 1, 2, 3, 7, 30])):
            r = rng.random()
            if r < 0.7:
                its.append('K%d' % rng.randrange(len(codes)))
            else:
                c = rng.randrange(256 ** d['w'])
                if c not in codes:
                    its.append(('G%d' if impl.impl_line('pinv %d %s' % (d['w'], c.to_bytes(d['w'], 'big').hex())).startswith('OK G') else 'U%d') % c)
        pairs.append(('cevec %s %s' % (v, ','.join(its) or '-'), 'pevec %s' % v))
        q = rng.choice(sorted(O))
        pairs.append(('copq %s %d' % (q, rng.randrange(len(list(O[q]['enum'])))), 'popq %s' % q))
        u = rng.choice(framegen.UNITS)
        hd, pl = framegen.valid_frame(rng, u, big=rng.random() < 0.03)
        pairs.append(('cframe %s %s %s' % (u, hd, pl.hex()), 'pframe %s' % u))
    return pairs


def expected_parse(ccmd, composed_hex):
    """What parsing the composed bytes must give, derived from the compose command itself (not from the model)."""
    ws = ccmd.split(' ')
    n = len(composed_hex) // 2
    if ws[0] == 'cnum':
        return 'OK %s n=%d' % (ws[3], n)
    if ws[0] in ('csshmpint',):
        return 'OK %s n=%d' % (ws[1], n)
    if ws[0] == 'cmpint':
        return 'OK %s n=%d' % (ws[2], n)
    if ws[0] in ('cenum', 'copq'):
        return 'OK %s n=%d' % (ws[2], n)
    if ws[0] == 'cevec':
        return 'OK [%s] n=%d' % ('' if ws[2] == '-' else ws[2], n)
    if ws[0] == 'cframe':
        return 'OK %s;%s n=%d' % ('' if ws[2] == '-' else ws[2], ws[3], n)
    return None


def run(chk):
    from harness import impl
    rng = chk.rng

    def sweep_originals():
        vectors = sweep.library_vectors()
        evals = 0
        for cls in sorted(vectors, key=sweep.qualname):
            name = sweep.qualname(cls)
            for v in list(vectors[cls]) + rt.extra_vectors(name, rng):
                evals += 1
                for pred, detail in rt.roundtrip_failures(cls, v):
                    if pred in C01_PREDICATES:
                        yield name, v, pred, detail
        chk.coverage['class_sweep'] = {'classes': len(vectors), 'objects': evals,
                                       'note': 'objects obtained by parsing the accepted vectors of the repository tests'}

    def sweep_nested():
        """the values nested in those objects, each against the parser of its own class"""
        vectors = sweep.library_vectors()
        n = 0
        for cls in sorted(vectors, key=sweep.qualname):
            name = sweep.qualname(cls)
            for v in list(vectors[cls]) + rt.extra_vectors(name, rng):
                try:
                    obj, _ = cls.parse_immutable(v)
                except Exception:  # pylint: disable=broad-except
                    continue
                for tname, path, pred, detail in rt.nested_failures(obj):
                    n += 1
                    yield name, v, tname, path, pred, detail
                n += 1
        chk.coverage['nested_values'] = n

    def search(_br):
        for name, v, pred, detail in sweep_originals():
            key = rt.finding_key(family(name), name, pred, 'orig', v)
            if chk.known(key) is None:
                return [('%s: %s' % (name, detail), {'class': name, 'input': v.hex(), 'predicate': pred}, key, True)]
        return []

    proved = common.proof_stage(chk, 'Props.C01', [], search)
    br = common.build_runner()
    pairs = constructed_lines(rng, impl, chk.tier)
    lines = []
    expect = {}
    for ccmd, pcmd in pairs:
        lines.append(ccmd)
        o = impl.impl_line(ccmd)
        if o.startswith('OK '):
            h = o[3:]
            for suffix in ('', '%02x' % rng.getrandbits(8), 'ff00'):
                pl = '%s %s' % (pcmd, h + suffix)
                lines.append(pl)
                expect[pl] = expected_parse(ccmd, h)
    impl_out = [impl.impl_line(l) for l in lines]
    nv = 0
    for l, o in zip(lines, impl_out):
        e = expect.get(l)
        if e is not None and o != e and nv < 5:
            nv += 1
            chk.violation('composed bytes do not parse back to the composed object: "%s" gives %s, expected %s' % (l[:140], o[:100], e[:100]),
                          {'cmd': l, 'impl': o, 'expected': e}, None, True)
    if br.ok:
        model_out = common.run_model(lines)
        diffs = [(l, m, i) for l, m, i in zip(lines, model_out, impl_out) if m != i]
        chk.coverage['disagreements'] = len(diffs)
        for l, m, i in diffs[:3]:
            chk.violation('correspondence broke on "%s": model %s, implementation %s' % (l[:160], m[:100], i[:100]),
                          {'cmd': l, 'model': m, 'impl': i, 'correspondence': 'Run.run_line compose/parse'}, None, False)
    else:
        chk.violation('model runner does not build: %s' % br.failed_file, {'error': br.error}, None, False)
    # messages constructed field by field (MySQL initial handshakes over every capability subset and auth-data length, SSL 2.0
    # hellos): the runner commands compose them, parse the result back with parse_exact_size and compare every field
    from harness import c06, c09
    msg_lines = [l for l in c09.gen_lines(rng, chk.tier) if l.startswith('mysqlhs ')]
    msg_lines += [l for l in c06.gen_lines(rng, impl, 'quick') if l.startswith('ssl2')]
    # SSL 2.0 records around the ends of the 15-bit length of the two-byte header
    msg_lines += ['ssl2bigrec %d' % n for n in (40, 255, 256, 16383, 16384, 16385, 21845, 32766, 32767)]
    from harness import c08
    msg_lines += [l for l in c08.gen_lines(rng, 'quick') if l.startswith('rrsigenc ')]    # built from datetimes in zones other than UTC
    # client hellos constructed from generated field values (signalling suites with and without a renegotiation_info extension,
    # extensions of every kind): the encoder command composes, parses back and compares every field
    from harness import tlsgen
    for sc in ([0x00ff], [0x5600], [0x00ff, 0x5600], []):
        for _ in range(6 if chk.tier == 'quick' else 120):
            msg_lines.append(tlsgen.client_hello(rng, impl, scsv=sc)[0])
            l2 = tlsgen.client_hello(rng, impl, scsv=sc)[0].split(' ')
            if '65281:' not in l2[6]:
                l2[6] = ('65281:00' if l2[6] == '-' else l2[6] + ';65281:00')      # and with an empty renegotiation_info for certain
            msg_lines.append(' '.join(l2))
    # cookies constructed from a name and a value in the cookie-octet alphabet of RFC 6265 4.1.1 ("=" included, anywhere)
    for nv in ('sid abc', 'sid a=b', 'sid abc=', 'sid abc==', 'sid =abc', 'sid ==', 'a %s' % ''.join(rng.choice('abc=01') for _ in range(rng.randint(1, 6)))):
        msg_lines.append('cookieenc %s %s' % tuple(x.encode('ascii').hex() for x in nv.split(' ')))
    nm = 0
    cookie_seen = set()
    for l in msg_lines:
        o = impl.impl_line(l)
        if o.startswith('LEAK RoundTripError'):
            key = None
            if l.startswith('cookieenc ') and bytes.fromhex(l.split(' ')[2]).startswith(b'='):
                key = 'HttpHeaderFieldValueSetCookie/constructed-value-starts-with-equals'
            if (key is None and nm >= 3) or key in cookie_seen:
                continue
            cookie_seen.add(key)
            cookie_seen.discard(None)
            nm += key is None
            chk.violation('a constructed message does not survive compose -> parse_exact_size: "%s" gives %s' % (l[:160], o[:80]),
                          {'cmd': l, 'impl': o, 'predicate': 'constructed-message'}, key, True)
    chk.coverage['constructed_messages'] = len(msg_lines)
    # constructed objects of every binary protocol class: each attrs field of an object parsed from a repository vector
    # replaced by other values of its type (attr.evolve: only what the constructor accepts), composed, parsed back, compared
    from harness import objgen
    seen_c = set()
    for _cls, name, oname, v, field, idx, pred, detail in objgen.sweep_constructed():
        key = objgen.finding_key(oname, field, pred)
        if key in seen_c:
            continue
        seen_c.add(key)
        chk.violation('%s with %s replaced: %s' % (name, field, detail),
                      {'class': name, 'input': v.hex(), 'field': field, 'candidate': idx, 'predicate': 'constructed-' + pred}, key, True)
    chk.coverage['constructed_objects'] = getattr(objgen.sweep_constructed, 'count', 0)
    seen_n = set()
    for name, v, tname, path, pred, detail in sweep_nested():
        key = 'nested/%s/%s' % (family(tname), pred)
        if key in seen_n:
            continue
        seen_n.add(key)
        chk.violation('%s%s: %s' % (name, path, detail), {'class': name, 'input': v.hex(), 'nested': tname, 'path': path, 'predicate': pred}, key, True)
    seen = set()
    for name, v, pred, detail in sweep_originals():
        key = rt.finding_key(family(name), name, pred, 'orig', v)
        if key in seen:
            continue
        seen.add(key)
        chk.violation('%s: %s' % (name, detail), {'class': name, 'input': v.hex(), 'predicate': pred}, key, True)
    chk.coverage['evaluations'] = len(lines) + chk.coverage.get('class_sweep', {}).get('objects', 0)
    chk.coverage['distinct_nontrivial'] = len(set(l for l in lines if l in expect))
    chk.coverage['traces_validated_against_impl'] = len(lines)
    chk.coverage['rule'] = ('constructed objects of every modelled class (integers of all widths and orders, fixed and SSH mpints of both signs, '
                            'members of every enum factory, enum vectors mixing known / unknown / GREASE items, ALPN names, frames of the seven '
                            'framing units with random headers and payloads): composed on model and implementation, and the composed bytes '
                            'parsed alone and with suffixes, compared with the model and with the value that was composed; plus, for all '
                            'classes reached by the repository tests, the objects parsed from their accepted vectors are composed and parsed '
                            'again (implementation only); non-trivial = distinct parse commands of composed bytes')
    for i in range(0, len(lines), max(1, len(lines) // 10)):
        chk.sample({'cmd': lines[i][:140], 'outcome': impl_out[i][:100]})
    chk.assumptions += ['classes without a Coq model are covered by the implementation-only round trip of the objects parsed from the repository '
                        "tests' vectors (exploration), not by a theorem"]


def replay(path):
    with open(path) as f:
        r = json.load(f)
    if 'nested' in r:
        mod, q = r['class'].rsplit('.', 1)
        cls = sweep.resolve(mod, q)
        obj, _ = cls.parse_immutable(bytes.fromhex(r['input']))
        fails = [(t, pa, p, d) for t, pa, p, d in rt.nested_failures(obj) if t == r['nested'] and p == r['predicate']]
        for t, pa, p, d in fails:
            print('%s%s: %s' % (q, pa, d))
        ok = not fails
    elif 'class' in r and not str(r.get('predicate', '')).startswith('constructed-'):
        mod, q = r['class'].rsplit('.', 1)
        cls = sweep.resolve(mod, q)
        fails = list(rt.roundtrip_failures(cls, bytes.fromhex(r['input'])))
        for p, d in fails:
            print('%s: %s' % (p, d))
        ok = not any(p == r.get('predicate') for p, _ in fails)
    elif str(r.get('predicate', '')).startswith('constructed-') and 'field' in r:
        from harness import objgen
        mod, q = r['class'].rsplit('.', 1)
        cls = sweep.resolve(mod, q)
        obj, _ = cls.parse_immutable(bytes.fromhex(r['input']))
        fails = []
        for field, idx, o2 in objgen.variants(obj):
            if field == r['field'] and idx == r['candidate']:
                fails = list(objgen.constructed_failures(cls, o2))
                print('%s.%s := %r -> %s' % (q, field, getattr(o2, field), fails or 'round trip holds'))
        ok = not fails
    elif r.get('predicate') == 'constructed-message':
        from harness import impl
        o = impl.impl_line(r['cmd'])
        print('%s -> %s' % (r['cmd'], o))
        ok = o.startswith('OK ')
    elif 'cmd' in r:
        from harness import impl
        o = impl.impl_line(r['cmd'])
        print('%s -> %s (expected %s)' % (r['cmd'], o, r.get('expected', r.get('model'))))
        ok = o == r.get('expected', r.get('model'))
    else:
        print(json.dumps(r, indent=1)[:3000])
        ok = False
    print('replay: property %s' % ('holds on this input' if ok else 'FAILS on this input'))
    return 0 if ok else 1
