from harness import gen_tables, framegen

KEX_VECTORS = ['SshKexAlgorithmVector', 'SshHostKeyAlgorithmVector', 'SshEncryptionAlgorithmVector', 'SshEncryptionAlgorithmVector',
               'SshMacAlgorithmVector', 'SshMacAlgorithmVector', 'SshCompressionAlgorithmVector', 'SshCompressionAlgorithmVector']


def rnd_list(rng, vector_name):
    names = gen_tables.ssh_name_enums()
    ms = [m.value.code for m in names[vector_name]['enum']]
    out = []
    for _ in range(rng.choice([0, 1, 2, 4, 9])):
        out.append((rng.choice(ms) if rng.random() < 0.7 else rng.choice(['unk%d@example.com' % rng.randrange(99), 'x', 'NONE'])).encode().hex())
    return ','.join(out) or '-'


def kexinit(rng):
    ls = [rnd_list(rng, v) for v in KEX_VECTORS] + [rng.choice(['-', '656e2d5553', '656e2d5553,656e2d4742']), rng.choice(['-', '656e2d5553'])]
    return 'kexenc %s %s %d %d' % (framegen.rnd_bytes(rng, 16).hex(), '|'.join(ls), rng.randint(0, 1), rng.choice([0, 0, 5, 2 ** 32 - 1]))
