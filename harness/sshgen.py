from harness import gen_tables, framegen

KEX_VECTORS = ['SshKexAlgorithmVector', 'SshHostKeyAlgorithmVector', 'SshEncryptionAlgorithmVector', 'SshEncryptionAlgorithmVector',
               'SshMacAlgorithmVector', 'SshMacAlgorithmVector', 'SshCompressionAlgorithmVector', 'SshCompressionAlgorithmVector']


def rnd_list(rng, vector_name):
    names = gen_tables.ssh_name_enums()
    ms = [m.value.code for m in names[vector_name]['enum']]
    out = []
    for _ in range(rng.choice([0, 1, 2, 4, 9])):
        out.append((rng.choice(ms) if rng.random() < 0.7 else rng.choice(['unk%d@example.com' % rng.randrange(99), 'x', 'NONE'])).encode().hex())
    return ','.join(out) or '-'


def kexinit(rng):
    ls = [rnd_list(rng, v) for v in KEX_VECTORS] + [rng.choice(['-', '656e2d5553', '656e2d5553,656e2d4742']), rng.choice(['-', '656e2d5553'])]
    return 'kexenc %s %s %d %d' % (framegen.rnd_bytes(rng, 16).hex(), '|'.join(ls), rng.randint(0, 1), rng.choice([0, 0, 5, 2 ** 32 - 1]))


def ec_blob_line(rng):
    """an ECDSA host key blob (RFC 5656 3.1): coordinates over the whole width of the field and, often, with leading zero
    octets in one or in both of them (the SEC 1 point keeps those octets)"""
    ident, size, bits = rng.choice([('nistp256', 32, 256), ('nistp384', 48, 384), ('nistp521', 66, 521)])

    def coord():
        k = rng.choice([bits, bits, bits - 9, bits - 17, bits - 30])
        return rng.getrandbits(k) | (1 << (k - 1)) | 3      # neither tiny nor a power of 256 (asn1crypto cannot hold those)
    return 'ecblob %s %d %d %d' % (ident.encode('ascii').hex(), size, coord(), coord())
